// Same as /repo/build.rs, with the path going through the `repo` symlink.
fn main() {
    println!("cargo:rerun-if-changed=repo/src/engine/tablebases/fathom/src");
    println!("cargo::rustc-check-cfg=cfg(jgilchrist_tcheran_verif)");
    cc::Build::new()
        .include("repo/src/engine/tablebases/fathom/src")
        .file("repo/src/engine/tablebases/fathom/src/tbprobe.c")
        .warnings(false)
        .compile("fathom");
}
