//! Small workloads sized for Miri (the undefined-behaviour interpreter): move generation,
//! flag decoding, make/unmake and key computation on hazard positions, each node also judged
//! by the ordinary oracles. Runs single-threaded; `init()` alone takes minutes under Miri.

use crate::bridge::*;
use crate::chess::game::Game;
use crate::chess::zobrist;
use crate::mon_board::check_c01;
use crate::refchess::*;
use crate::util::*;

const ROOTS: [&str; 10] = [
    "7b/8/8/4Pp2/3K4/8/8/k7 w - f6 0 1",
    "8/8/8/KPp4r/8/8/8/7k w - c6 0 1",
    "r3k2r/8/8/8/8/5r2/8/R3K2R w KQkq - 0 1",
    "4k3/8/8/8/8/5n2/4r3/4K3 w - - 0 1",
    "n1n5/PPPk4/8/8/8/8/4Kppp/5N1N b - - 0 1",
    "r3k2r/p1ppqpb1/bn2pnp1/3PN3/Pp2P3/2N2Q1p/1PPBBPPP/R3K2R b KQkq a3 0 1",
    "3r2k1/4P3/8/8/8/8/8/r3K3 w - - 0 1",
    "rnbq1k1r/pp1Pbppp/2p5/8/2B5/8/PPP1NnPP/RNBQK2R w KQ - 1 8",
    "8/2p5/3p4/KP5r/1R3p1k/8/4P1P1/8 w - - 0 1",
    "k7/pppppppp/8/8/8/8/QQQQQQQQ/KQRRBBNN w - - 0 1",
];

fn dfs(prop: &str, g: &mut Game, p: &Pos, depth: u32, trail: &mut Vec<String>, root: &str, report: &Report, l: &mut Local) {
    l.evaluations += 1;
    l.distinct.insert(hash_str(&format!("{root}|{}", trail.join(" "))));
    if prop == "c01" {
        if let Some(d) = check_c01(g, p) {
            report.violation(Violation { monitor: "c01".into(), signature: d.signature, what: d.what, replay_args: vec!["c01".into(), "--fen".into(), root.into(), "--moves".into(), trail.join(" ")], detail: d.detail });
            return;
        }
    }
    if prop == "c16" {
        // static evaluation (piece-square, passed-pawn and mobility tables are read through unchecked
        // lookups into statics) + its colour-mirror twin + the blend bracket, all interpreted
        if let Some((sig, what)) = crate::mon_pos::check_c16(g, p, l) {
            report.violation(Violation { monitor: "c16".into(), signature: sig, what, replay_args: vec!["c16".into(), "--fen".into(), root.into(), "--moves".into(), trail.join(" ")], detail: J::Null });
            return;
        }
        l.feat("evaluations_under_miri");
    }
    if depth == 0 {
        return;
    }
    for m in p.legal_moves() {
        let Some(e) = find_engine_move(g, m) else { continue };
        let before_fen = g.to_fen();
        let before_key = g.zobrist.0;
        g.make_move(e);
        l.feat("make_unmake_pairs");
        if m.ep {
            l.feat("en_passant");
        }
        if m.castle {
            l.feat("castling");
        }
        if m.promo.is_some() {
            l.feat("promotion");
        }
        let n = p.make(m);
        if prop == "c02" {
            let got = game_to_ref(g);
            let mut want = n.clone();
            want.ep = got.ep; // the target field is judged by the native C02 check
            if got != want {
                report.violation(Violation { monitor: "c02".into(), signature: "c02.rules.miri".into(), what: format!("after {} the engine holds {}", m.uci(), g.to_fen()), replay_args: vec![], detail: J::Null });
            }
            if g.zobrist != zobrist::hash(g) {
                report.violation(Violation { monitor: "c02".into(), signature: "c02.key.miri".into(), what: format!("key mismatch after {}", m.uci()), replay_args: vec![], detail: J::Null });
            }
        }
        trail.push(m.uci());
        dfs(prop, g, &n, depth - 1, trail, root, report, l);
        trail.pop();
        g.undo_move();
        if prop == "c02" && (g.to_fen() != before_fen || g.zobrist.0 != before_key) {
            report.violation(Violation { monitor: "c02".into(), signature: "c02.undo.miri".into(), what: format!("take-back of {} did not restore {}", m.uci(), before_fen), replay_args: vec![], detail: J::Null });
        }
    }
    // null move where a search may make one
    if prop == "c02" && !p.in_check(p.stm) {
        let before = g.to_fen();
        g.make_null_move();
        g.undo_null_move();
        l.feat("null_move_pairs");
        if g.to_fen() != before {
            report.violation(Violation { monitor: "c02".into(), signature: "c02.undo.null.miri".into(), what: format!("null move round trip changed {before}"), replay_args: vec![], detail: J::Null });
        }
    }
}

/// The real search under the interpreter: hash-table probes and stores (unchecked indexing), the staged
/// move picker, move flag decoding, make/unmake, evaluation - on a 1 MB table, to a small depth.
pub fn run_search(args: &Args, report: &Report) -> String {
    use crate::engine::search::PersistentState;
    use crate::mon_search::{do_search, judge_infos, Limit};
    let depth = args.u64("--depth", 2) as u8;
    let lo = args.u64("--root-lo", 0) as usize;
    let hi = args.u64("--root-hi", ROOTS.len() as u64 - 1) as usize;
    let mut l = Local::default();
    let mut ps = PersistentState::new(1);
    for root in ROOTS[lo..=hi.min(ROOTS.len() - 1)].iter() {
        let p = Pos::from_fen(root).unwrap();
        let Ok(g) = Game::from_fen(root) else { continue };
        let legal = p.legal_moves();
        if legal.is_empty() {
            continue;
        }
        l.evaluations += 1;
        l.distinct.insert(hash_str(root));
        l.samples.push(js(*root));
        match do_search(&g, &mut ps, &Limit::Depth(depth), 0) {
            Err((m, loc)) => report.violation(Violation { monitor: "c04".into(), signature: format!("c04.panic@{}", short_loc(&loc)), what: format!("search of {root} panicked under Miri: {m}"), replay_args: vec![], detail: J::Null }),
            Ok(out) => {
                l.feat("searches_under_miri");
                if !legal.iter().any(|x| x.from == out.best.from && x.to == out.best.to && x.promo == out.best.promo) {
                    report.violation(Violation { monitor: "c04".into(), signature: "c04.illegal-best-move".into(), what: format!("{} is not legal in {root}", out.best.uci()), replay_args: vec![], detail: J::Null });
                }
                let mut scratch = Local::default();
                if let Some((sig, what)) = judge_infos(&p, &out.infos, Some(depth), &mut scratch) {
                    report.violation(Violation { monitor: "c04".into(), signature: sig, what, replay_args: vec![], detail: J::Null });
                }
                if let Some(last) = out.infos.last() {
                    l.feat_n("nodes_searched_under_miri", last.nodes);
                }
            }
        }
    }
    report.merge_local(&mut l);
    "depth-limited searches of hazard roots sharing one 1 MB table, executed under the Miri interpreter; returned move and reported lines judged by the ordinary oracles; distinct = roots".into()
}

pub fn run(prop: &str, args: &Args, report: &Report) -> String {
    let depth = args.u64("--depth", 2) as u32;
    let lo = args.u64("--root-lo", 0) as usize;
    let hi = args.u64("--root-hi", ROOTS.len() as u64 - 1) as usize;
    let mut l = Local::default();
    for root in ROOTS[lo..=hi.min(ROOTS.len() - 1)].iter() {
        let p = Pos::from_fen(root).unwrap();
        let Ok(mut g) = Game::from_fen(root) else { continue };
        l.samples.push(js(*root));
        // the whole harness (reference model included) is interpreted: keep the trees small
        let men = p.b.iter().flatten().count();
        let d = if men <= 8 { depth } else { depth.min(1) };
        dfs(prop, &mut g, &p, d, &mut vec![], root, report, &mut l);
    }
    report.merge_local(&mut l);
    "DFS to a small depth from hazard roots, executed under the Miri interpreter (every unchecked table lookup, transmute and new_unchecked on the path is checked against its allocation / validity invariant); each node also judged by the ordinary oracle; distinct = distinct nodes".into()
}
