//! C19 — the transposition table never confuses positions and keeps honest statistics.
//!
//! History + executable model with unambiguous values: every inserted datum carries a unique
//! id (packed into `eval` and `best_move`), so a probe result identifies the insert it came
//! from. Needs no `init()` (runs under Miri as is).

use crate::bridge::esq;
use crate::chess::moves::Move;
use crate::chess::zobrist::ZobristHash;
use crate::engine::eval::Eval;
use crate::engine::search::transposition::{NodeBound, SearchTranspositionTable, SearchTranspositionTableData};
use crate::engine::transposition_table::{calculate_number_of_entries, TranspositionTable};
use crate::util::*;
use std::collections::HashMap;

#[derive(Clone, Debug, PartialEq)]
struct Member {
    key: u64,
    id: u64,
    bound: u8, // 0 exact 1 upper 2 lower
    depth: u8,
    age: u8,
}

fn bound_of(b: u8) -> NodeBound {
    match b {
        0 => NodeBound::Exact,
        1 => NodeBound::Upper,
        _ => NodeBound::Lower,
    }
}

fn bound_code(b: &NodeBound) -> u8 {
    match b {
        NodeBound::Exact => 0,
        NodeBound::Upper => 1,
        NodeBound::Lower => 2,
    }
}

fn pack(id: u64) -> (Eval, Option<Move>) {
    let lo = (id & 0xffff) as u16 as i16;
    let hi = (id >> 16) % 4033; // 0 = no move, 1..=4032 = (from, to) pairs with from != to
    let mv = if hi == 0 {
        None
    } else {
        let x = hi - 1;
        let from = (x / 63) as u8;
        let mut to = (x % 63) as u8;
        if to >= from {
            to += 1;
        }
        Some(Move::quiet(esq(from), esq(to)))
    };
    (Eval(lo), mv)
}

fn unpack(d: &SearchTranspositionTableData) -> u64 {
    let lo = d.eval.0 as u16 as u64;
    let hi = match d.best_move {
        None => 0,
        Some(m) => {
            let from = m.src().idx() as u64;
            let mut to = m.dst().idx() as u64;
            if to > from {
                to -= 1;
            }
            from * 63 + to + 1
        }
    };
    (hi << 16) | lo
}

#[derive(Clone, Debug)]
enum Op {
    Insert { key: u64, id: u64, bound: u8, depth: u8 },
    Get { key: u64 },
    NewGen,
    Reset,
    Resize { mb: usize },
    Occupancy,
}

fn op_text(o: &Op) -> String {
    match o {
        Op::Insert { key, id, bound, depth } => format!("i{key:x}.{id}.{bound}.{depth}"),
        Op::Get { key } => format!("g{key:x}"),
        Op::NewGen => "n".into(),
        Op::Reset => "r".into(),
        Op::Resize { mb } => format!("z{mb}"),
        Op::Occupancy => "o".into(),
    }
}

fn parse_op(t: &str) -> Option<Op> {
    let (h, rest) = t.split_at(1);
    match h {
        "i" => {
            let p: Vec<&str> = rest.split('.').collect();
            Some(Op::Insert { key: u64::from_str_radix(p[0], 16).ok()?, id: p[1].parse().ok()?, bound: p[2].parse().ok()?, depth: p[3].parse().ok()? })
        }
        "g" => Some(Op::Get { key: u64::from_str_radix(rest, 16).ok()? }),
        "n" => Some(Op::NewGen),
        "r" => Some(Op::Reset),
        "z" => Some(Op::Resize { mb: rest.parse().ok()? }),
        "o" => Some(Op::Occupancy),
        _ => None,
    }
}

struct Model {
    entries: usize,
    /// slot -> admissible current contents (None = still empty)
    slots: HashMap<usize, Vec<Option<Member>>>,
    filled: usize,
    /// model of the table's own generation counter (8-bit, as the API exposes it)
    generation: u8,
}

impl Model {
    fn new(mb: usize) -> Model {
        Model { entries: calculate_number_of_entries::<SearchTranspositionTableData>(mb), slots: HashMap::new(), filled: 0, generation: 0 }
    }
    fn clear(&mut self) {
        self.slots.clear();
        self.filled = 0;
        self.generation = 0;
    }
}

/// Run one operation history; returns Err((signature, what)) at the first violation.
fn run_history(start_mb: usize, ops: &[Op], l: &mut Local) -> Result<(), (String, String)> {
    let mut tt: SearchTranspositionTable = match guarded(|| TranspositionTable::new(start_mb)) {
        Ok(t) => t,
        Err((m, loc)) => return Err((format!("c19.panic.new@{}", short_loc(&loc)), format!("creating a {start_mb} MB table panicked: {m}"))),
    };
    let mut model = Model::new(start_mb);
    let mut size_mb = start_mb;
    let mut seen_keys: Vec<u64> = vec![];
    for (n, op) in ops.iter().enumerate() {
        l.evaluations += 1;
        match op {
            Op::Insert { key, id, bound, depth } => {
                let (eval, best_move) = pack(*id);
                let age = tt.generation;
                let data = SearchTranspositionTableData { bound: bound_of(*bound), eval, depth: *depth, age, best_move };
                if let Err((m, loc)) = guarded(|| {
                    let _ = tt.insert(&ZobristHash(*key), data);
                }) {
                    let class = if model.entries == 0 { "zero-slot-table" } else { "other" };
                    return Err((format!("c19.panic.insert.{class}@{}", short_loc(&loc)), format!("insert into a {size_mb} MB table panicked at op {n}: {m}")));
                }
                if model.entries == 0 {
                    l.feat("ops_on_zero_slot_table");
                    continue;
                }
                let slot = (*key % model.entries as u64) as usize;
                let new = Member { key: *key, id: *id, bound: *bound, depth: *depth, age };
                let cur = model.slots.entry(slot).or_insert_with(|| vec![None]);
                let was_empty_possible = cur.iter().any(|m| m.is_none());
                let mut next: Vec<Option<Member>> = vec![];
                let mut push = |m: Option<Member>, next: &mut Vec<Option<Member>>| {
                    if !next.contains(&m) {
                        next.push(m);
                    }
                };
                for old in cur.iter() {
                    match old {
                        None => push(Some(new.clone()), &mut next),
                        Some(o) => {
                            if o.age != new.age {
                                // entries from earlier searches always give way
                                l.feat("insert_over_older_search");
                                push(Some(new.clone()), &mut next);
                            } else if o.bound == 0 && new.bound != 0 && new.depth <= o.depth {
                                // an exact result is displaced only by another exact one or a deeper one
                                l.feat("insert_must_not_displace_exact");
                                push(Some(o.clone()), &mut next);
                            } else {
                                // the statement leaves the choice to the policy
                                l.feat("insert_policy_free");
                                push(Some(o.clone()), &mut next);
                                push(Some(new.clone()), &mut next);
                            }
                            if o.key != new.key {
                                l.feat("slot_collision_different_keys");
                            }
                        }
                    }
                }
                if was_empty_possible && cur.len() == 1 {
                    model.filled += 1;
                }
                *cur = next;
                if seen_keys.len() < 4000 {
                    seen_keys.push(*key);
                }
            }
            Op::Get { key } => {
                let got = match guarded(|| tt.get(&ZobristHash(*key)).cloned()) {
                    Ok(g) => g,
                    Err((m, loc)) => {
                        let class = if model.entries == 0 { "zero-slot-table" } else { "other" };
                        return Err((format!("c19.panic.get.{class}@{}", short_loc(&loc)), format!("probe of a {size_mb} MB table panicked at op {n}: {m}")));
                    }
                };
                if model.entries == 0 {
                    l.feat("ops_on_zero_slot_table");
                    if got.is_some() {
                        return Err(("c19.probe.data-from-empty-table".into(), "a zero-slot table returned data".into()));
                    }
                    continue;
                }
                let slot = (*key % model.entries as u64) as usize;
                let cur = model.slots.entry(slot).or_insert_with(|| vec![None]);
                match got {
                    Some(d) => {
                        l.feat("probe_hits");
                        let id = unpack(&d);
                        let m = cur.iter().flatten().find(|m| m.id == id && m.key == *key && m.bound == bound_code(&d.bound) && m.depth == d.depth && m.age == d.age).cloned();
                        match m {
                            Some(m) => *cur = vec![Some(m)],
                            None => {
                                let stored_elsewhere = cur.iter().flatten().any(|m| m.id == id);
                                let sig = if stored_elsewhere { "c19.probe.wrong-key" } else { "c19.probe.unexplained-data" };
                                return Err((sig.into(), format!("probe({key:#x}) at op {n} returned id {id} depth {} age {} bound {:?}; admissible slot contents: {:?}", d.depth, d.age, d.bound, cur)));
                            }
                        }
                    }
                    None => {
                        l.feat("probe_misses");
                        let keep: Vec<Option<Member>> = cur.iter().filter(|m| match m {
                            None => true,
                            Some(m) => m.key != *key,
                        }).cloned().collect();
                        if keep.is_empty() {
                            return Err(("c19.probe.lost-entry".into(), format!("probe({key:#x}) at op {n} returned nothing although every admissible content of the slot is stored under that key: {:?}", cur)));
                        }
                        *cur = keep;
                    }
                }
            }
            Op::NewGen => {
                l.feat("new_generation");
                if let Err((m, loc)) = guarded(|| {
                    let _ = tt.new_generation();
                }) {
                    return Err((format!("c19.panic.new_generation@{}", short_loc(&loc)), format!("search number {} on one table panicked: {m}", model.generation as u32 + 1)));
                }
                model.generation = model.generation.wrapping_add(1);
                if model.generation == 0 {
                    l.feat("generation_wrapped_past_255");
                }
            }
            Op::Reset | Op::Resize { .. } => {
                let r = match op {
                    Op::Reset => {
                        l.feat("reset");
                        guarded(|| {
                            let _ = tt.reset();
                        })
                    }
                    Op::Resize { mb } => {
                        l.feat("resize");
                        let mb = *mb;
                        let same_size = mb == size_mb;
                        let occ_before = if same_size && model.entries > 0 { guarded(|| tt.occupancy()).unwrap_or(0) } else { 0 };
                        let r = guarded(|| {
                            let _ = tt.resize(mb);
                        });
                        size_mb = mb;
                        model.entries = calculate_number_of_entries::<SearchTranspositionTableData>(mb);
                        if same_size && r.is_ok() {
                            // A resize to the current size may legitimately do nothing at all (what this engine does) or
                            // empty the table like any other resize. What it may not do is a bit of both: whichever of the
                            // two its counters claim is then checked in full.
                            l.feat("resize_to_the_current_size");
                            // "claims to be empty" only if a counter visibly says so (the fill indicator is in permille and
                            // reads 0 for a nearly empty table anyway)
                            let occ_after = if model.entries > 0 { tt.occupancy() } else { 0 };
                            let claims_empty = (tt.generation == 0 && model.generation != 0) || (occ_before > 0 && occ_after == 0);
                            if !claims_empty {
                                if tt.generation != model.generation {
                                    return Err(("c19.same-size-resize.half-done".into(), format!("a resize to the current size ({mb} MB) left the entries alone but changed the search counter from {} to {}", model.generation, tt.generation)));
                                }
                                if model.entries > 0 {
                                    let got = tt.occupancy() as i64;
                                    let want = (1000u128 * model.filled as u128 / model.entries as u128) as i64;
                                    if (got - want).abs() > 1 {
                                        return Err(("c19.same-size-resize.half-done".into(), format!("a resize to the current size ({mb} MB) left the search counter alone but the fill indicator reads {got} with {} of {} slots occupied", model.filled, model.entries)));
                                    }
                                }
                                continue;
                            }
                        }
                        r
                    }
                    _ => unreachable!(),
                };
                if let Err((m, loc)) = r {
                    return Err((format!("c19.panic.reset-resize@{}", short_loc(&loc)), m));
                }
                model.clear();
                if model.entries > 0 {
                    for k in seen_keys.iter() {
                        if guarded(|| tt.get(&ZobristHash(*k)).is_some()).unwrap_or(false) {
                            return Err(("c19.not-emptied".into(), format!("after {op:?} at op {n} the key {k:#x} inserted earlier still probes as present")));
                        }
                    }
                    l.feat_n("probes_after_reset_or_resize", seen_keys.len() as u64);
                }
                seen_keys.clear();
                if tt.generation != 0 {
                    return Err(("c19.generation-not-reset".into(), format!("generation is {} after {op:?}", tt.generation)));
                }
            }
            Op::Occupancy => {
                if model.entries == 0 {
                    // 0/0 slots: any finite answer is fine, it just must not crash
                    if let Err((m, loc)) = guarded(|| tt.occupancy()) {
                        return Err((format!("c19.panic.occupancy@{}", short_loc(&loc)), m));
                    }
                    continue;
                }
                l.feat("occupancy_checks");
                let got = tt.occupancy() as i64;
                let want = (1000u128 * model.filled as u128 / model.entries as u128) as i64;
                if (got - want).abs() > 1 {
                    return Err(("c19.occupancy".into(), format!("fill indicator {got} permille, but {} of {} slots are occupied ({want} permille)", model.filled, model.entries)));
                }
            }
        }
    }
    Ok(())
}

fn gen_history(rng: &mut Rng, sizes: &[usize], n_ops: usize, next_id: &mut u64) -> (usize, Vec<Op>) {
    let start = *rng.pick(sizes);
    let mut mb = start;
    let mut ops = Vec::with_capacity(n_ops);
    let style = rng.below(4);
    let mut entries = calculate_number_of_entries::<SearchTranspositionTableData>(mb).max(1) as u64;
    let hot: Vec<u64> = (0..(1 + rng.below(24))).map(|_| rng.below(entries)).collect();
    let mut recent: Vec<u64> = vec![];
    for _ in 0..n_ops {
        let x = rng.below(1000);
        if x < 600 {
            // insert; keys collide on purpose: slot + j * entries
            let key = if rng.chance(4, 5) { rng.pick(&hot) + rng.below(4) * entries } else { rng.next() };
            *next_id += 1;
            let bound = rng.below(3) as u8;
            let depth = if rng.chance(1, 10) { 255 } else { rng.below(12) as u8 };
            ops.push(Op::Insert { key, id: *next_id % (4033u64 << 16), bound, depth });
            recent.push(key);
            if recent.len() > 64 {
                recent.remove(0);
            }
        } else if x < 930 {
            let key = if !recent.is_empty() && rng.chance(4, 5) { *rng.pick(&recent) } else if rng.chance(1, 2) { rng.pick(&hot) + rng.below(5) * entries } else { rng.next() };
            ops.push(Op::Get { key });
        } else if x < 960 {
            ops.push(Op::Occupancy);
        } else if x < 995 || style == 0 {
            ops.push(Op::NewGen);
        } else if x < 998 {
            ops.push(Op::Reset);
        } else {
            let mut to = *rng.pick(sizes);
            if to == mb && rng.chance(2, 3) {
                // (one time in three the current size is asked for again: see the model)
                to = *sizes.iter().find(|s| **s != mb).unwrap_or(&(mb + 1));
            }
            mb = to;
            entries = calculate_number_of_entries::<SearchTranspositionTableData>(mb).max(1) as u64;
            ops.push(Op::Resize { mb });
        }
    }
    // many generations in a row (crosses search number 256) in some histories
    if style == 1 {
        let at = rng.below(ops.len() as u64 + 1) as usize;
        let burst: Vec<Op> = (0..(200 + rng.below(400))).map(|_| Op::NewGen).collect();
        ops.splice(at..at, burst);
    }
    (start, ops)
}

/// A history that really fills a small table: `permille`/1000 x slots inserts of random keys (so that most slots get
/// occupied and many are overwritten), the fill indicator read a dozen times on the way, probes of recent keys.
/// Deterministic in (mb, seed, permille) so that a replay needs only those three numbers.
fn gen_fill_history(mb: usize, seed: u64, permille: u64) -> Vec<Op> {
    let mut rng = Rng::new(seed, 8100 + mb as u64);
    let entries = calculate_number_of_entries::<SearchTranspositionTableData>(mb).max(1) as u64;
    let count = (entries * permille / 1000).max(10);
    let every = (count / 12).max(1);
    let mut ops = Vec::with_capacity(count as usize + 64);
    let mut id = seed << 20;
    let mut last = 0u64;
    for i in 0..count {
        let key = rng.next();
        id += 1;
        ops.push(Op::Insert { key, id: id % (4033u64 << 16), bound: rng.below(3) as u8, depth: rng.below(12) as u8 });
        last = key;
        if i % every == every - 1 {
            ops.push(Op::Occupancy);
            ops.push(Op::Get { key: last });
            if rng.chance(1, 3) {
                ops.push(Op::NewGen);
            }
        }
    }
    ops.push(Op::Occupancy);
    ops
}

pub fn run(args: &Args, seed: u64, tier: &str, report: &Report) -> String {
    let rule = "operation histories insert/probe/new-search/reset/resize/fill-indicator over the real TranspositionTable<SearchTranspositionTableData>, keys colliding on a slot on purpose, every inserted datum uniquely identified; each probe must be explainable by the set of entries the stated policy admits; distinct = distinct histories (by content hash)";
    let thorough = tier == "thorough";
    if let Some(h) = args.get("--history") {
        let (mb, rest) = h.split_once(':').unwrap();
        let ops: Vec<Op> = rest.split(',').filter(|s| !s.is_empty()).filter_map(parse_op).collect();
        let mut l = Local::default();
        l.distinct.insert(1);
        l.distinct.insert(2);
        if let Err((sig, what)) = run_history(mb.parse().unwrap(), &ops, &mut l) {
            report.violation(Violation { monitor: "c19".into(), signature: sig, what, replay_args: vec![], detail: J::Null });
        }
        report.merge_local(&mut l);
        return rule.into();
    }
    if let Some(f) = args.get("--fill") {
        let p: Vec<u64> = f.split(':').filter_map(|x| x.parse().ok()).collect();
        let mut l = Local::default();
        l.distinct.insert(1);
        l.distinct.insert(2);
        if p.len() == 3 {
            let ops = gen_fill_history(p[0] as usize, p[1], p[2]);
            if let Err((sig, what)) = run_history(p[0] as usize, &ops, &mut l) {
                report.violation(Violation { monitor: "c19".into(), signature: sig, what, replay_args: vec![], detail: J::Null });
            }
        }
        l.evaluations = l.evaluations.max(1);
        report.merge_local(&mut l);
        return rule.into();
    }
    let sizes_arg = args.str("--sizes", "0,1,2,3,16,64");
    let sizes: Vec<usize> = sizes_arg.split(',').map(|s| s.parse().unwrap()).collect();
    let histories = args.u64("--histories", if thorough { 16_000 } else { 1_600 });
    let max_ops = args.u64("--max-ops", if thorough { 12_000 } else { 6_000 }) as usize;
    let threads = args.u64("--threads", 16) as usize;
    let body = |shard: usize| {
        let mut l = Local::default();
        let mut rng = Rng::new(seed + args.u64("--seed-add", 0), 8000 + shard as u64);
        let mut next_id = (shard as u64) << 40;
        for h in 0..histories / threads as u64 {
            let n_ops = 50 + rng.below(max_ops as u64) as usize;
            let (mb, ops) = gen_history(&mut rng, &sizes, n_ops, &mut next_id);
            l.feat(&format!("histories_starting_at_{mb}mb"));
            let r = run_history(mb, &ops, &mut l);
            let text: Vec<String> = ops.iter().map(op_text).collect();
            l.distinct.insert(hash_str(&text.join(",")));
            if h == 0 && shard < 2 {
                l.samples.push(js(format!("{mb}:{}", text.iter().take(30).cloned().collect::<Vec<_>>().join(","))));
            }
            if let Err((sig, what)) = r {
                // shorten the replay to the prefix that matters (ops up to the failure are all needed)
                report.violation(Violation {
                    monitor: "c19".into(),
                    signature: sig,
                    what,
                    replay_args: vec!["c19".into(), "--history".into(), format!("{mb}:{}", text.join(","))],
                    detail: J::Null,
                });
            }
            if h % 20 == 0 {
                report.merge_local(&mut l);
            }
        }
        report.merge_local(&mut l);
    };
    if threads == 1 {
        body(0);
    } else {
        run_shards(threads, 32, body);
    }
    // small tables filled for real (a third of the slots .. three inserts per slot): the fill indicator at high
    // occupancy, overwrites of occupied slots, the counters after hundreds of thousands of stores
    if !args.flag("--no-size-sweep") {
        let fill_sizes: &[usize] = if thorough { &[1, 2, 3, 5, 7, 9, 13, 16] } else { &[1, 2, 3, 5] };
        let jobs: Vec<(usize, u64)> = fill_sizes.iter().flat_map(|mb| [300u64, 900, 3000].iter().map(move |pm| (*mb, *pm))).collect();
        let jobs_ref = &jobs;
        run_shards(jobs.len().min(16), 32, |shard: usize| {
            let mut l = Local::default();
            let mut j = shard;
            while j < jobs_ref.len() {
                let (mb, pm) = jobs_ref[j];
                let ops = gen_fill_history(mb, seed + j as u64, pm);
                l.feat("fill_histories");
                l.feat_n("fill_history_inserts", ops.len() as u64);
                l.distinct.insert(hash_str(&format!("fill{mb}:{}:{pm}", seed + j as u64)));
                if let Err((sig, what)) = run_history(mb, &ops, &mut l) {
                    report.violation(Violation { monitor: "c19".into(), signature: sig, what: format!("{what} [{mb} MB table filled with {} stores]", ops.len()), replay_args: vec!["c19".into(), "--fill".into(), format!("{mb}:{}:{pm}", seed + j as u64)], detail: J::Null });
                }
                j += jobs_ref.len().min(16);
            }
            report.merge_local(&mut l);
        });
    }
    // every advertised size: create, insert, probe, fill indicator (sizes above 256 MB only in the thorough tier)
    let all_sizes: Vec<usize> = if args.flag("--no-size-sweep") { vec![] } else if thorough { vec![0, 1, 2, 3, 5, 7, 8, 15, 16, 31, 32, 63, 64, 100, 127, 128, 255, 256, 257, 511, 512, 1000, 1023, 1024] } else { vec![0, 1, 2, 3, 5, 8, 16, 31, 64, 128, 256] };
    let mut l = Local::default();
    for mb in all_sizes {
        let ops = vec![
            Op::Insert { key: 12345, id: 77, bound: 0, depth: 3 },
            Op::Get { key: 12345 },
            Op::Get { key: 54321 },
            Op::Occupancy,
            Op::NewGen,
            Op::Insert { key: u64::MAX, id: 78, bound: 2, depth: 1 },
            Op::Get { key: u64::MAX },
            Op::Reset,
            Op::Get { key: 12345 },
        ];
        l.feat("size_sweep_tables");
        if let Err((sig, what)) = run_history(mb, &ops, &mut l) {
            let text: Vec<String> = ops.iter().map(op_text).collect();
            report.violation(Violation { monitor: "c19".into(), signature: sig, what: format!("{what} [size {mb} MB]"), replay_args: vec!["c19".into(), "--history".into(), format!("{mb}:{}", text.join(","))], detail: J::Null });
        }
    }
    report.merge_local(&mut l);
    rule.into()
}
