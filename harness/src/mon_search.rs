//! Search-level monitors: C04 (answers with one legal move, never crashes), C08 (reported
//! lines playable, mate announcements true), C09 (stopping is safe at every poll), C12 (same
//! state, same search; reset means fresh).

use crate::bridge::*;
use crate::chess::game::Game;
use crate::chess::moves::Move;
use crate::chess::zobrist::ZobristHash;
use crate::engine::options::EngineOptions;
use crate::engine::search::time_control::{verif as h1, TimeStrategy};
use crate::engine::search::{self, Clocks, PersistentState, Reporter, SearchInfo, SearchRestrictions, SearchScore, TimeControl};
use crate::gen::*;
use crate::refchess::*;
use crate::util::*;
use std::time::Duration;

// -- shared: running one search and recording everything it reports ----------------------

#[derive(Clone, Debug, PartialEq)]
pub struct InfoRec {
    pub depth: u8,
    pub seldepth: u8,
    pub cp: Option<i16>,
    pub mate: Option<i16>,
    pub pv: Vec<Mv>,
    pub nodes: u64,
    pub hashfull: usize,
    pub tbhits: u64,
}

impl InfoRec {
    fn text(&self) -> String {
        format!(
            "d{} sd{} {} n{} hf{} pv {}",
            self.depth,
            self.seldepth,
            match (self.cp, self.mate) {
                (Some(c), _) => format!("cp {c}"),
                (_, Some(m)) => format!("mate {m}"),
                _ => "?".into(),
            },
            self.nodes,
            self.hashfull,
            self.pv.iter().map(|m| m.uci()).collect::<Vec<_>>().join(" ")
        )
    }
}

pub struct Recorder {
    pub infos: Vec<InfoRec>,
}

impl Reporter for Recorder {
    fn generic_report(&self, _: &str) {}
    fn report_search_progress(&mut self, _: &Game, p: SearchInfo) {
        let (cp, mate) = match p.score {
            SearchScore::Centipawns(c) => (Some(c), None),
            SearchScore::Mate(m) => (None, Some(m)),
        };
        self.infos.push(InfoRec {
            depth: p.depth,
            seldepth: p.seldepth,
            cp,
            mate,
            pv: p.pv.clone().into_iter().map(mv_to_ref).collect(),
            nodes: p.stats.nodes,
            hashfull: p.hashfull,
            tbhits: p.stats.tbhits,
        });
    }
    fn best_move(&self, _: &Game, _: Move) {}
}

#[derive(Clone, Debug, PartialEq)]
pub enum Limit {
    Depth(u8),
    /// depth limit plus a stop request observed at the given poll (hook H1): a logical bound on
    /// searches whose depth limit alone would take unboundedly long
    DepthStop(u8, u64),
    MoveTime(u64),
    /// (wtime, btime, winc, binc, movestogo) in ms, plus a depth cap to keep the cost bounded
    Clock(u64, u64, u64, u64, Option<u32>),
    /// `go depth D movetime T`: both limits bind
    DepthMoveTime(u8, u64),
    /// `go depth D wtime .. btime ..`: both limits bind
    DepthClock(u8, u64, u64, u64, u64, Option<u32>),
}

impl Limit {
    fn text(&self) -> String {
        match self {
            Limit::Depth(d) => format!("depth{d}"),
            Limit::DepthStop(d, k) => format!("dstop{d}/{k}"),
            Limit::MoveTime(t) => format!("movetime{t}"),
            Limit::Clock(w, b, wi, bi, mtg) => format!("clock{w}/{b}/{wi}/{bi}/{}", mtg.map(|x| x.to_string()).unwrap_or("-".into())),
            Limit::DepthMoveTime(d, t) => format!("dmt{d}/{t}"),
            Limit::DepthClock(d, w, b, wi, bi, mtg) => format!("dclock{d}/{w}/{b}/{wi}/{bi}/{}", mtg.map(|x| x.to_string()).unwrap_or("-".into())),
        }
    }
    /// the depth limit the search was given, if any
    pub fn depth_limit(&self) -> Option<u8> {
        match self {
            Limit::Depth(d) | Limit::DepthStop(d, _) | Limit::DepthMoveTime(d, _) | Limit::DepthClock(d, ..) => Some(*d),
            _ => None,
        }
    }
    fn parse(t: &str) -> Option<Limit> {
        if let Some(d) = t.strip_prefix("depth") {
            return Some(Limit::Depth(d.parse().ok()?));
        }
        if let Some(d) = t.strip_prefix("dmt") {
            let (a, b) = d.split_once('/')?;
            return Some(Limit::DepthMoveTime(a.parse().ok()?, b.parse().ok()?));
        }
        if let Some(d) = t.strip_prefix("dclock") {
            let p: Vec<&str> = d.split('/').collect();
            return Some(Limit::DepthClock(p[0].parse().ok()?, p[1].parse().ok()?, p[2].parse().ok()?, p[3].parse().ok()?, p[4].parse().ok()?, p[5].parse().ok()));
        }
        if let Some(d) = t.strip_prefix("dstop") {
            let (a, b) = d.split_once('/')?;
            return Some(Limit::DepthStop(a.parse().ok()?, b.parse().ok()?));
        }
        if let Some(d) = t.strip_prefix("movetime") {
            return Some(Limit::MoveTime(d.parse().ok()?));
        }
        if let Some(d) = t.strip_prefix("clock") {
            let p: Vec<&str> = d.split('/').collect();
            return Some(Limit::Clock(p[0].parse().ok()?, p[1].parse().ok()?, p[2].parse().ok()?, p[3].parse().ok()?, p[4].parse().ok()));
        }
        None
    }
}

pub struct SearchOut {
    pub best: Mv,
    pub infos: Vec<InfoRec>,
}

/// Run the real `search::search` once. Err = (panic message, location).
pub fn do_search(g: &Game, ps: &mut PersistentState, limit: &Limit, overhead_ms: usize) -> Result<SearchOut, (String, String)> {
    do_search_late(g, ps, limit, overhead_ms, 0)
}

/// As `do_search`, but the search only begins `late_ms` after its stopwatch was started (the front end starts the
/// stopwatch when it reads `go`; thread start-up, a busy table lock or a loaded machine come in between).
pub fn do_search_late(g: &Game, ps: &mut PersistentState, limit: &Limit, overhead_ms: usize, late_ms: u64) -> Result<SearchOut, (String, String)> {
    let mut options = EngineOptions::default();
    options.move_overhead = overhead_ms;
    let (tc, depth) = match limit {
        Limit::Depth(d) => (TimeControl::Infinite, Some(*d)),
        Limit::DepthStop(d, _) => (TimeControl::Infinite, Some(*d)),
        Limit::MoveTime(ms) => (TimeControl::ExactTime(Duration::from_millis(*ms)), None),
        Limit::DepthMoveTime(d, ms) => (TimeControl::ExactTime(Duration::from_millis(*ms)), Some(*d)),
        Limit::DepthClock(d, w, b, wi, bi, mtg) => (
            TimeControl::Clocks(Clocks {
                white_clock: Some(Duration::from_millis(*w)),
                black_clock: Some(Duration::from_millis(*b)),
                white_increment: Some(Duration::from_millis(*wi)),
                black_increment: Some(Duration::from_millis(*bi)),
                moves_to_go: *mtg,
            }),
            Some(*d),
        ),
        Limit::Clock(w, b, wi, bi, mtg) => (
            TimeControl::Clocks(Clocks {
                white_clock: Some(Duration::from_millis(*w)),
                black_clock: Some(Duration::from_millis(*b)),
                white_increment: Some(Duration::from_millis(*wi)),
                black_increment: Some(Duration::from_millis(*bi)),
                moves_to_go: *mtg,
            }),
            None,
        ),
    };
    if let Limit::DepthStop(_, k) = limit {
        h1::arm(*k);
    }
    let r = guarded(|| {
        let (mut ts, _control) = TimeStrategy::new(g, &tc, &options);
        if late_ms > 0 {
            std::thread::sleep(Duration::from_millis(late_ms));
        }
        let restrictions = SearchRestrictions { depth };
        let mut rec = Recorder { infos: vec![] };
        let best = search::search(g, ps, &mut ts, &restrictions, &options, &mut rec);
        SearchOut { best: mv_to_ref(best), infos: rec.infos }
    });
    if let Limit::DepthStop(..) = limit {
        h1::arm(0);
    }
    r
}

/// C08's oracle over the info records of one search.
pub fn judge_infos(root: &Pos, infos: &[InfoRec], depth_limit: Option<u8>, l: &mut Local) -> Option<(String, String)> {
    let mut prev_depth = 0u8;
    for inf in infos {
        l.feat("info_lines");
        if prev_depth.checked_add(1) != Some(inf.depth) {
            return Some(("c08.depth-sequence".into(), format!("reported depth {} after depth {}", inf.depth, prev_depth)));
        }
        prev_depth = inf.depth;
        if let Some(lim) = depth_limit {
            if inf.depth > lim {
                return Some(("c08.depth-exceeds-limit".into(), format!("reported depth {} with limit {}", inf.depth, lim)));
            }
        }
        if inf.pv.is_empty() {
            return Some(("c08.empty-pv".into(), format!("empty line at depth {}", inf.depth)));
        }
        let mut p = root.clone();
        for (i, m) in inf.pv.iter().enumerate() {
            let legal = p.legal_moves();
            match legal.iter().find(|x| x.from == m.from && x.to == m.to && x.promo == m.promo) {
                Some(x) => p = p.make(*x),
                None => {
                    return Some(("c08.illegal-pv-move".into(), format!("line '{}' at depth {}: move {} ({}) is not legal", inf.text(), inf.depth, i + 1, m.uci())));
                }
            }
        }
        if let Some(n) = inf.mate {
            l.feat("mate_announcements");
            if n == 0 {
                return Some(("c08.mate-zero".into(), format!("'mate 0' announced: {}", inf.text())));
            }
            let want_len = if n > 0 { 2 * n as usize - 1 } else { 2 * (-n) as usize };
            if n > 0 {
                l.feat("mate_for_root_side");
            } else {
                l.feat("mate_against_root_side");
            }
            l.feat(&format!("mate_distance_{}", n.unsigned_abs().min(7)));
            if inf.pv.len() != want_len {
                return Some(("c08.mate-length".into(), format!("mate {n} announced with a line of {} plies (expected {want_len}): {}", inf.pv.len(), inf.text())));
            }
            let mated_side = if n > 0 { root.stm.other() } else { root.stm };
            if !(p.is_checkmate() && p.stm == mated_side) {
                return Some(("c08.mate-not-mate".into(), format!("mate {n} announced but the line does not end with {:?} checkmated: {}", mated_side, inf.text())));
            }
        }
    }
    None
}

// -- workload: cases --------------------------------------------------------------------------

#[derive(Clone, Debug)]
pub struct Step {
    pub fen: String,
    pub moves: Vec<String>,
    pub limit: Limit,
    /// before this search: 0 nothing, 1 reset(), 2 resize to `arg` MB
    pub pre: u8,
    pub arg: usize,
}

#[derive(Clone, Debug)]
pub struct Case {
    pub hash_mb: usize,
    pub steps: Vec<Step>,
}

impl Case {
    pub fn encode(&self) -> String {
        let steps: Vec<String> = self
            .steps
            .iter()
            .map(|s| format!("{}|{}|{}|{}|{}", s.fen, s.moves.join(" "), s.limit.text(), s.pre, s.arg))
            .collect();
        format!("{}#{}", self.hash_mb, steps.join("#"))
    }
    pub fn decode(t: &str) -> Option<Case> {
        let mut it = t.split('#');
        let hash_mb = it.next()?.parse().ok()?;
        let mut steps = vec![];
        for s in it {
            let p: Vec<&str> = s.split('|').collect();
            if p.len() != 5 {
                return None;
            }
            steps.push(Step {
                fen: p[0].into(),
                moves: p[1].split_whitespace().map(|x| x.to_string()).collect(),
                limit: Limit::parse(p[2])?,
                pre: p[3].parse().ok()?,
                arg: p[4].parse().ok()?,
            });
        }
        Some(Case { hash_mb, steps })
    }
}

pub fn build_game(fen: &str, moves: &[String]) -> Option<(Game, Pos)> {
    let mut p = Pos::from_fen(fen).ok()?;
    let mut g = Game::from_fen(fen).ok()?;
    for t in moves {
        let m = p.find_uci(t)?;
        let e = find_engine_move(&g, m)?;
        g.make_move(e);
        p = p.make(m);
    }
    Some((g, p))
}

/// Tiny-tree / mate roots: few pieces, forced mates of various lengths for either side.
pub const MATE_ROOTS: [&str; 22] = [
    "8/6k1/8/2R5/8/1K6/3Q1p2/8 w - - 1 25",
    "8/8/8/8/8/2k5/8/K2Q4 w - - 0 1",
    "6k1/5ppp/8/8/8/8/8/R3K3 w Q - 0 1",
    "7k/8/5K2/8/8/8/8/6Q1 w - - 0 1",
    "7k/8/6K1/8/8/8/8/R7 w - - 0 1",
    "k7/8/1K6/8/8/8/8/7R w - - 0 1",
    "8/8/8/8/8/5k2/8/4K2r b - - 0 1",
    "6k1/8/6K1/8/8/8/8/3R4 b - - 0 1",
    "r5k1/5ppp/8/8/8/8/5PPP/4R1K1 w - - 0 1",
    "2k5/8/2K5/8/8/8/8/3R4 w - - 0 1",
    "8/8/8/8/8/6k1/4q3/7K w - - 0 1",
    "3k4/8/3K4/8/8/8/8/Q7 w - - 0 1",
    "k7/2Q5/8/2K5/8/8/8/8 w - - 10 1",
    "8/8/8/3k4/8/3K4/3P4/8 w - - 0 1",
    "8/5k2/8/8/8/8/1p3K2/8 b - - 0 1",
    "4k3/8/4K3/4P3/8/8/8/8 w - - 0 1",
    "8/8/8/8/4k3/8/2q5/K7 w - - 0 1",
    "1k6/ppp5/8/8/8/8/8/K3R3 w - - 0 1",
    "5rk1/5ppp/8/8/8/8/8/K5RR w - - 0 1",
    "7k/5Q2/6K1/8/8/8/8/8 b - - 99 80",
    "8/8/8/8/8/2k5/1r6/K7 w - - 98 90",
    "4k3/8/8/8/8/8/4P3/4K3 w - - 0 1",
];

fn nonterminal(p: &Pos) -> bool {
    !p.legal_moves().is_empty()
}

/// Positions whose depth-1 search already runs to tens of thousands of nodes (many queens facing
/// each other: the capture search explodes), so that a stop or an expired limit can be seen before
/// the first root move has been scored.
/// Number of stop-flag polls a depth-1 search of `p` makes before poll `cap` (workload selection only:
/// how expensive the first iteration is; never part of a verdict).
pub fn depth1_polls(p: &Pos, cap: u64) -> u64 {
    let Ok(g) = Game::from_fen(&p.to_fen(EpConv::Always)) else { return 0 };
    let mut ps = PersistentState::new(1);
    h1::arm(cap);
    let options = EngineOptions::default();
    let r = guarded(|| {
        let (mut ts, _c) = TimeStrategy::new(&g, &TimeControl::Infinite, &options);
        let restrictions = SearchRestrictions { depth: Some(1) };
        let mut rec = Recorder { infos: vec![] };
        let _ = search::search(&g, &mut ps, &mut ts, &restrictions, &options, &mut rec);
    });
    let polls = h1::observed().0;
    h1::arm(0);
    if r.is_err() {
        return 0;
    }
    polls
}

pub fn quiescence_heavy(rng: &mut Rng) -> Option<Pos> {
    for _ in 0..400 {
        let c = SynthCfg { max_extra: 30, wild: true, focus: true, castling: false };
        let Some(p) = synth(rng, &c) else { continue };
        let queens = p.b.iter().flatten().filter(|pc| pc.k == Kind::Q).count();
        let wq = p.b.iter().flatten().filter(|pc| pc.k == Kind::Q && pc.c == Color::W).count();
        if queens >= 8 && wq >= 3 && queens - wq >= 3 && !p.in_check(p.stm) {
            let legal = p.legal_moves();
            if legal.iter().filter(|m| m.capture).count() >= 8 {
                return Some(p);
            }
        }
    }
    None
}

fn random_position(rng: &mut Rng, roots: &[Pos], l: &mut Local) -> Option<(String, Vec<String>, Pos)> {
    if rng.chance(1, 14) {
        let p = quiescence_heavy(rng)?;
        l.feat("pos_quiescence_heavy");
        return Some((p.to_fen(EpConv::Always), vec![], p));
    }
    match rng.below(10) {
        0..=1 => {
            let f = *rng.pick(&MATE_ROOTS);
            let p = Pos::from_fen(f).ok()?;
            l.feat("pos_mate_or_tiny_tree_root");
            Some((f.to_string(), vec![], p))
        }
        2..=6 => {
            // a position some plies into a playout from a corpus root (keeps the game history)
            let root = rng.pick(roots).clone();
            let mut p = root.clone();
            let mut moves = vec![];
            for _ in 0..rng.below(50) {
                let legal = p.legal_moves();
                if legal.is_empty() {
                    break;
                }
                let m = pick_move(&p, &legal, rng);
                let n = p.make(m);
                if n.legal_moves().is_empty() {
                    break;
                }
                p = n;
                moves.push(m.uci());
            }
            l.feat("pos_playout_with_history");
            Some((root.to_fen(EpConv::Always), moves, p))
        }
        7..=8 => {
            let c = SynthCfg { max_extra: *rng.pick(&[2usize, 3, 5, 8, 14, 24]), wild: rng.chance(1, 4), focus: false, castling: true };
            let p = synth(rng, &c)?;
            if !nonterminal(&p) {
                return None;
            }
            l.feat("pos_synth");
            Some((p.to_fen(EpConv::Always), vec![], p))
        }
        _ => {
            // shuffle games near the fifty-move boundary / with repetitions
            let mut p = rng.pick(roots).clone();
            p.hmc = *rng.pick(&[90u32, 95, 97, 98, 99]);
            if !p.is_legal_position() || !nonterminal(&p) {
                return None;
            }
            l.feat("pos_near_fifty_move_boundary");
            Some((p.to_fen(EpConv::Always), vec![], p))
        }
    }
}

fn random_limit(rng: &mut Rng, p: &Pos, budget: u8, l: &mut Local) -> Limit {
    let men = p.b.iter().flatten().count();
    if p.b.iter().flatten().filter(|pc| pc.k == Kind::Q).count() >= 8 {
        // the first iteration alone is expensive here: limits that expire inside it
        // (never a bare depth limit here: depth 1 alone can be tens of millions of nodes)
        return match rng.below(4) {
            0 => Limit::DepthStop(1 + rng.below(2) as u8, 2 + rng.below(30)),
            1 => {
                l.feat("limit_movetime");
                Limit::MoveTime(1 + rng.below(3))
            }
            2 => Limit::DepthStop(3, 1 + rng.below(4)),
            _ => {
                l.feat("limit_clock");
                Limit::Clock(2, 2, 0, 0, Some(1))
            }
        };
    }
    match rng.below(20) {
        0..=9 => {
            let max = if men <= 5 { budget + 3 } else if men <= 10 { budget + 1 } else { budget };
            // (now and then the lowest limit there is: depth 0 - no iteration may be reported at all)
            if rng.chance(1, 25) { Limit::Depth(0) } else { Limit::Depth(1 + rng.below(max as u64) as u8) }
        }
        10 => {
            // small depth cap, roomy time: the depth cap must be what ends the search
            l.feat("limit_depth_and_movetime");
            Limit::DepthMoveTime(1 + rng.below(3) as u8, *rng.pick(&[30u64, 60, 2000]))
        }
        11 => {
            l.feat("limit_depth_and_clock");
            let t = *rng.pick(&[400u64, 2000, 60000]);
            Limit::DepthClock(1 + rng.below(3) as u8, t, t, *rng.pick(&[0u64, 10]), *rng.pick(&[0u64, 10]), *rng.pick(&[None, Some(1), Some(40)]))
        }
        12 => {
            if men <= 5 {
                l.feat("limit_depth_255_with_stop");
                Limit::DepthStop(255, 40 + rng.below(120))
            } else {
                Limit::Depth(1)
            }
        }
        13..=15 => {
            l.feat("limit_movetime");
            Limit::MoveTime(1 + rng.below(25))
        }
        _ => {
            l.feat("limit_clock");
            let t = *rng.pick(&[1u64, 5, 20, 60, 200, 1000]);
            Limit::Clock(t, t + rng.below(50), *rng.pick(&[0u64, 1, 10]), *rng.pick(&[0u64, 1, 10]), *rng.pick(&[None, Some(1), Some(2), Some(40)]))
        }
    }
}

fn gen_case(rng: &mut Rng, roots: &[Pos], budget: u8, l: &mut Local) -> Option<Case> {
    let hash_mb = *rng.pick(&[0usize, 1, 1, 2, 2, 16, 16, 64]);
    let style = rng.below(12);
    let mut steps = vec![];
    match style {
        0 => {
            // more than 256 searches on one table without a reset
            l.feat("chain_crossing_256_searches");
            let (fen, moves, p0) = random_position(rng, roots, l)?;
            if p0.b.iter().flatten().filter(|pc| pc.k == Kind::Q).count() >= 8 {
                return None; // 257 fixed-depth searches of a quiescence-heavy root would take minutes
            }
            for _ in 0..(257 + rng.below(30)) {
                steps.push(Step { fen: fen.clone(), moves: moves.clone(), limit: Limit::Depth(1 + rng.below(2) as u8), pre: 0, arg: 0 });
            }
        }
        1..=3 => {
            // a game played move by move, searching every position (history grows)
            l.feat("chain_game_played_through");
            let (fen, mut moves, mut p) = random_position(rng, roots, l)?;
            for _ in 0..(4 + rng.below(16)) {
                let limit = random_limit(rng, &p, budget.saturating_sub(1).max(2), l);
                steps.push(Step { fen: fen.clone(), moves: moves.clone(), limit, pre: 0, arg: 0 });
                let legal = p.legal_moves();
                if legal.is_empty() {
                    break;
                }
                let m = pick_move(&p, &legal, rng);
                let n = p.make(m);
                if n.legal_moves().is_empty() {
                    break;
                }
                p = n;
                moves.push(m.uci());
            }
        }
        _ => {
            let n = 1 + rng.below(6);
            for _ in 0..n {
                let (fen, moves, p) = random_position(rng, roots, l)?;
                let limit = random_limit(rng, &p, budget, l);
                let (pre, arg) = match rng.below(12) {
                    0 => {
                        l.feat("reset_between_searches");
                        (1u8, 0usize)
                    }
                    1 => {
                        l.feat("resize_between_searches");
                        (2u8, *rng.pick(&[0usize, 1, 2, 3, 16]))
                    }
                    _ => (0, 0),
                };
                steps.push(Step { fen, moves, limit, pre, arg });
            }
        }
    }
    if steps.is_empty() {
        return None;
    }
    l.feat(&format!("hash_{hash_mb}mb"));
    Some(Case { hash_mb, steps })
}

#[derive(Clone, Copy, PartialEq)]
pub enum SProp {
    C04,
    C08,
}

/// Run a case; judge per the property. Returns Some((sig, what)) at the first violation.
fn run_case(prop: SProp, case: &Case, l: &mut Local) -> Option<(String, String)> {
    let mut ps = match guarded(|| PersistentState::new(case.hash_mb)) {
        Ok(p) => p,
        Err((m, loc)) => return Some((format!("{}.panic@{}", if prop == SProp::C04 { "c04" } else { "c08" }, short_loc(&loc)), format!("creating the tables panicked: {m}"))),
    };
    for (i, st) in case.steps.iter().enumerate() {
        let Some((g, p)) = build_game(&st.fen, &st.moves) else { return None };
        if p.legal_moves().is_empty() {
            continue;
        }
        match st.pre {
            // (results discarded on purpose: the harness must keep compiling if a setter starts returning something)
            1 => {
                let _ = ps.reset();
            }
            2 => {
                let _ = ps.tt.resize(st.arg);
            }
            _ => {}
        }
        l.evaluations += 1;
        l.feat("searches");
        let r = do_search(&g, &mut ps, &st.limit, 0);
        match r {
            Err((m, loc)) => {
                if prop == SProp::C04 {
                    let class = if m.contains("overflow") { "overflow" } else if m.contains("index out of bounds") || m.contains("out of range") { "index" } else { "other" };
                    return Some((format!("c04.panic.{class}@{}", short_loc(&loc)), format!("search {} of the chain ({} {}) panicked: {m} at {loc}", i + 1, p.to_fen(EpConv::Always), st.limit.text())));
                }
                // for C08 a crash is C04's business; stop this case quietly
                l.feat("search_panicked_not_judged_here");
                return None;
            }
            Ok(out) => {
                if prop == SProp::C04 {
                    let legal = p.legal_moves();
                    if !legal.iter().any(|x| x.from == out.best.from && x.to == out.best.to && x.promo == out.best.promo) {
                        return Some(("c04.illegal-best-move".into(), format!("search {} of the chain returned {} which is not legal in {}", i + 1, out.best.uci(), p.to_fen(EpConv::Always))));
                    }
                    if out.infos.is_empty() {
                        l.feat("search_without_completed_iteration");
                    }
                    if let Some(last) = out.infos.last() {
                        l.feat_n("max_depth_reported_sum", last.depth as u64);
                        if last.depth >= 100 {
                            l.feat("search_reached_depth_100_plus");
                        }
                        if last.seldepth >= 200 {
                            l.feat("seldepth_200_plus");
                        }
                    }
                } else {
                    let lim = st.limit.depth_limit();
                    if lim.is_some() && !matches!(st.limit, Limit::Depth(_) | Limit::DepthStop(..)) {
                        l.feat("searches_with_depth_and_time_limit");
                    }
                    if i > 0 {
                        l.feat("searches_on_used_tables");
                    }
                    if let Some((sig, what)) = judge_infos(&p, &out.infos, lim, l) {
                        return Some((sig, format!("{what} [search {} of the chain, {} {}]", i + 1, p.to_fen(EpConv::Always), st.limit.text())));
                    }
                }
            }
        }
    }
    None
}

pub fn run_c04_c08(prop: SProp, args: &Args, seed: u64, tier: &str, report: &Report) -> String {
    let (mode, rule) = match prop {
        SProp::C04 => ("c04", "chains of searches sharing one PersistentState: positions (mate/tiny-tree roots, playouts with history, synthesised, near the fifty-move boundary) x depth limits 1..12 and 255 x movetime x clock tuples x hash sizes {0,1,2,16,64} MB x histories (games played through, >256 searches on one table, resets and resizes between searches); the returned move must be legal per the reference and nothing may panic; distinct = distinct chains"),
        SProp::C08 => ("c08", "same chains; every SearchInfo handed to the Reporter is replayed on the reference: non-empty, legal, depths 1,2,3,.. <= limit, mate n => exactly 2n-1 (or 2|n|) plies ending in checkmate of the announced side; distinct = distinct chains"),
    };
    let thorough = tier == "thorough";
    if let Some(c) = args.get("--case") {
        let mut l = Local::default();
        l.distinct.insert(1);
        l.distinct.insert(2);
        match Case::decode(c) {
            Some(case) => {
                if let Some((sig, what)) = run_case(prop, &case, &mut l) {
                    report.violation(Violation { monitor: mode.into(), signature: sig, what, replay_args: vec![], detail: J::Null });
                }
            }
            None => report.note("case could not be decoded".into()),
        }
        l.evaluations = l.evaluations.max(1);
        report.merge_local(&mut l);
        return rule.into();
    }
    let cases = args.u64("--cases", if thorough { 60_000 } else { 1_100 });
    let budget = args.u64("--depth-budget", if thorough { 8 } else { 6 }) as u8;
    let roots = corpus_roots();
    run_shards(16, 512, |shard| {
        let mut l = Local::default();
        let mut rng = Rng::new(seed, 9000 + shard as u64);
        for i in 0..cases / 16 {
            let Some(case) = gen_case(&mut rng, &roots, budget, &mut l) else { continue };
            let enc = case.encode();
            l.distinct.insert(hash_str(&enc));
            if i == 1 && shard < 2 {
                l.samples.push(js(if enc.len() > 600 { format!("{}...", &enc[..600]) } else { enc.clone() }));
            }
            if let Some((sig, what)) = run_case(prop, &case, &mut l) {
                report.violation(Violation { monitor: mode.into(), signature: sig, what, replay_args: vec![mode.into(), "--case".into(), enc], detail: J::Null });
            }
            report.merge_local(&mut l);
        }
    });
    rule.into()
}

// =========================================================================================
// C12 — determinism and fresh-after-reset

fn transcript(out: &SearchOut) -> String {
    let mut s = format!("best {}\n", out.best.uci());
    for i in out.infos.iter() {
        s.push_str(&i.text());
        s.push_str(&format!(" tb{}\n", i.tbhits));
    }
    s
}

fn run_chain_transcripts(case: &Case) -> Result<Vec<String>, (String, String)> {
    let mut ps = PersistentState::new(case.hash_mb);
    let mut out = vec![];
    for st in case.steps.iter() {
        let Some((g, p)) = build_game(&st.fen, &st.moves) else { continue };
        if p.legal_moves().is_empty() {
            continue;
        }
        match st.pre {
            // (results discarded on purpose: the harness must keep compiling if a setter starts returning something)
            1 => {
                let _ = ps.reset();
            }
            2 => {
                let _ = ps.tt.resize(st.arg);
            }
            _ => {}
        }
        out.push(transcript(&do_search(&g, &mut ps, &st.limit, 0)?));
    }
    Ok(out)
}

pub fn run_c12(args: &Args, seed: u64, tier: &str, report: &Report) -> String {
    let rule = "fixed-depth search chains: (a) the same chain on two fresh states, the second under 16 busy threads, must give identical transcripts (best move, depth, seldepth, score, nodes, hashfull, line of every iteration); (b) search X on a fresh state == X after an arbitrary chain followed by PersistentState::reset(); distinct = distinct chains";
    let thorough = tier == "thorough";
    let cases = args.u64("--cases", if thorough { 12_000 } else { 420 });
    let budget = if thorough { 7 } else { 6 };
    let roots = corpus_roots();
    let one = |case: &Case, l: &mut Local, loaded: bool| -> Option<(String, String)> {
        // (a) determinism
        let a = run_chain_transcripts(case);
        let stop = std::sync::Arc::new(std::sync::atomic::AtomicBool::new(false));
        let mut burners = vec![];
        if loaded {
            for _ in 0..16 {
                let s = stop.clone();
                burners.push(std::thread::spawn(move || {
                    let mut x = 1u64;
                    while !s.load(std::sync::atomic::Ordering::Relaxed) {
                        for _ in 0..10_000 {
                            x = x.wrapping_mul(6364136223846793005).wrapping_add(1);
                        }
                        std::hint::black_box(x);
                    }
                }));
            }
            l.feat("second_run_under_load");
        }
        let b = run_chain_transcripts(case);
        stop.store(true, std::sync::atomic::Ordering::Relaxed);
        for h in burners {
            let _ = h.join();
        }
        let (a, b) = match (a, b) {
            (Ok(a), Ok(b)) => (a, b),
            _ => {
                l.feat("search_panicked_not_judged_here");
                return None;
            }
        };
        l.evaluations += a.len() as u64;
        for (i, (x, y)) in a.iter().zip(b.iter()).enumerate() {
            if x != y {
                return Some(("c12.nondeterministic".into(), format!("search {} of the chain differs between two runs from the same state:\n--- first\n{x}--- second\n{y}", i + 1)));
            }
        }
        // (b) fresh after reset: the last search of the chain, on a fresh state vs after the chain + reset
        let last = case.steps.last().unwrap();
        let Some((g, p)) = build_game(&last.fen, &last.moves) else { return None };
        if p.legal_moves().is_empty() {
            return None;
        }
        let mut fresh = PersistentState::new(case.hash_mb);
        let f = do_search(&g, &mut fresh, &last.limit, 0).ok().map(|o| transcript(&o));
        let mut used = PersistentState::new(case.hash_mb);
        for st in case.steps.iter() {
            if let Some((g2, p2)) = build_game(&st.fen, &st.moves) {
                if !p2.legal_moves().is_empty() {
                    match st.pre {
                        1 => {
                            let _ = used.reset();
                        }
                        2 => {
                            let _ = used.tt.resize(st.arg);
                            let _ = used.tt.resize(case.hash_mb);
                        }
                        _ => {}
                    }
                    let _ = do_search(&g2, &mut used, &st.limit, 0);
                }
            }
        }
        let _ = used.reset();
        l.feat("reset_then_compare_with_fresh");
        let u = do_search(&g, &mut used, &last.limit, 0).ok().map(|o| transcript(&o));
        l.evaluations += 2;
        if let (Some(f), Some(u)) = (f, u) {
            if f != u {
                return Some(("c12.reset-not-fresh".into(), format!("after a chain of {} searches and reset(), the search differs from a freshly started engine:\n--- fresh\n{f}--- after reset\n{u}", case.steps.len())));
            }
        }
        None
    };
    // (c) a whole new game after reset(), in lockstep with a fresh state: k searches, reset, then up to 260 searches of a
    // small pool of positions (so that what the tables remember matters) compared one by one - "behaves exactly like a
    // freshly started one" is about every later search, not only the first
    let lockstep = |k: u64, pool: &[(String, Vec<String>)], l: &mut Local| -> Option<(String, String)> {
        let games: Vec<Game> = pool.iter().filter_map(|(f, m)| build_game(f, m).map(|x| x.0)).collect();
        if games.is_empty() {
            return None;
        }
        let mut used = PersistentState::new(1);
        for j in 0..k {
            let _ = do_search(&games[j as usize % games.len()], &mut used, &Limit::Depth(1), 0);
        }
        let _ = used.reset();
        let mut fresh = PersistentState::new(1);
        let n = (256 - k % 256) + 3;
        l.feat("lockstep_games_after_reset");
        for j in 0..n {
            let g = &games[j as usize % games.len()];
            let a = do_search(g, &mut fresh, &Limit::Depth(3), 0).ok().map(|o| transcript(&o));
            let b = do_search(g, &mut used, &Limit::Depth(3), 0).ok().map(|o| transcript(&o));
            l.evaluations += 2;
            l.feat("lockstep_searches_compared");
            if let (Some(a), Some(b)) = (a, b) {
                if a != b {
                    return Some(("c12.reset-not-fresh.later-search".into(), format!("after {k} searches and reset(), search number {} of the new game differs from search number {} of a freshly started engine:\n--- fresh\n{a}--- after reset\n{b}", j + 1, j + 1)));
                }
            }
        }
        None
    };
    if let Some(c) = args.get("--lockstep") {
        let mut l = Local::default();
        l.distinct.insert(1);
        l.distinct.insert(2);
        let f: Vec<&str> = c.split('#').collect();
        let pool: Vec<(String, Vec<String>)> = f[1..].iter().filter_map(|x| x.split_once('|')).map(|(a, b)| (a.to_string(), b.split_whitespace().map(|t| t.to_string()).collect())).collect();
        if let Some((sig, what)) = lockstep(f[0].parse().unwrap_or(1), &pool, &mut l) {
            report.violation(Violation { monitor: "c12".into(), signature: sig, what, replay_args: vec![], detail: J::Null });
        }
        l.evaluations = l.evaluations.max(1);
        report.merge_local(&mut l);
        return rule.into();
    }
    if let Some(c) = args.get("--case") {
        let mut l = Local::default();
        l.distinct.insert(1);
        l.distinct.insert(2);
        if let Some(case) = Case::decode(c) {
            if let Some((sig, what)) = one(&case, &mut l, true) {
                report.violation(Violation { monitor: "c12".into(), signature: sig, what, replay_args: vec![], detail: J::Null });
            }
        }
        l.evaluations = l.evaluations.max(1);
        report.merge_local(&mut l);
        return rule.into();
    }
    // loaded comparisons run one at a time on the main thread; the rest in parallel
    run_shards(16, 512, |shard| {
        let mut l = Local::default();
        let mut rng = Rng::new(seed, 10_000 + shard as u64);
        for i in 0..cases / 16 {
            let Some(mut case) = gen_case(&mut rng, &roots, budget, &mut l) else { continue };
            // quiescence-heavy roots are for the limit-expiry workloads; a fixed-depth search of one can take
            // minutes, and determinism does not need them
            case.steps.retain(|st| st.fen.split(' ').next().unwrap_or("").chars().filter(|c| *c == 'q' || *c == 'Q').count() < 8);
            if case.steps.is_empty() {
                continue;
            }
            // depth-limited searches only: a time limit makes the node count depend on the clock
            for st in case.steps.iter_mut() {
                if !matches!(st.limit, Limit::Depth(_)) {
                    st.limit = Limit::Depth(1 + rng.below(budget as u64) as u8);
                }
                if let Limit::Depth(d) = st.limit {
                    if d > 12 {
                        st.limit = Limit::Depth(12);
                    }
                }
            }
            if case.steps.len() > 40 {
                l.feat("long_chain_ge_255_generations");
            }
            let enc = case.encode();
            l.distinct.insert(hash_str(&enc));
            if i == 0 && shard < 2 {
                l.samples.push(js(if enc.len() > 600 { format!("{}...", &enc[..600]) } else { enc.clone() }));
            }
            // one shard in four runs its second pass under load
            if let Some((sig, what)) = one(&case, &mut l, shard % 4 == 0 && i % 8 == 0) {
                report.violation(Violation { monitor: "c12".into(), signature: sig, what, replay_args: vec!["c12".into(), "--case".into(), enc], detail: J::Null });
            }
            report.merge_local(&mut l);
        }
        // (d) "independent of wall-clock time": the same fixed-depth search with its stopwatch started seconds before
        // it begins (2.3 s, 5.2 s or 10.4 s by shard) - a depth limit knows nothing about the clock
        if shard < (if thorough { 16 } else { 6 }) {
            if let Some((fen, moves, p)) = random_position(&mut rng, &roots, &mut l) {
                let queens = p.b.iter().flatten().filter(|pc| pc.k == Kind::Q).count();
                if queens <= 2 && !p.legal_moves().is_empty() {
                    if let Some((g, _)) = build_game(&fen, &moves) {
                        let late = [2300u64, 5200, 10_400][shard % 3];
                        let d = 4 + rng.below(3) as u8;
                        let a = do_search(&g, &mut PersistentState::new(1), &Limit::Depth(d), 0).ok().map(|o| transcript(&o));
                        let b = do_search_late(&g, &mut PersistentState::new(1), &Limit::Depth(d), 0, late).ok().map(|o| transcript(&o));
                        l.evaluations += 2;
                        l.feat("searches_begun_seconds_after_their_stopwatch");
                        if let (Some(a), Some(b)) = (a, b) {
                            if a != b {
                                report.violation(Violation { monitor: "c12".into(), signature: "c12.depends-on-the-clock".into(), what: format!("'{fen}' + {} moves, depth {d}: the search that began {late} ms after its stopwatch was started differs from the one that began at once:\n--- at once\n{a}--- late\n{b}", moves.len()), replay_args: vec![], detail: J::Null });
                            }
                        }
                    }
                }
            }
            report.merge_local(&mut l);
        }
        // (c) one lockstep game per shard (thorough: four)
        for _ in 0..(if thorough { 2 } else { 1 }) {
            let mut pool: Vec<(String, Vec<String>)> = vec![];
            let mut guard = 0;
            while pool.len() < 4 && guard < 200 {
                guard += 1;
                if let Some((fen, moves, p)) = random_position(&mut rng, &roots, &mut l) {
                    let queens = p.b.iter().flatten().filter(|pc| pc.k == Kind::Q).count();
                    if queens <= 2 && !p.legal_moves().is_empty() {
                        pool.push((fen, moves));
                    }
                }
            }
            // (exact multiples of 256 searches too: the table's 8-bit search counter is back at 0 then)
            let k = match shard % 8 {
                0 => 256,
                1 => 512,
                _ => 1 + rng.below(300),
            };
            let enc = format!("{k}#{}", pool.iter().map(|(f, m)| format!("{f}|{}", m.join(" "))).collect::<Vec<_>>().join("#"));
            l.distinct.insert(hash_str(&enc));
            if let Some((sig, what)) = lockstep(k, &pool, &mut l) {
                report.violation(Violation { monitor: "c12".into(), signature: sig, what, replay_args: vec!["c12".into(), "--lockstep".into(), enc], detail: J::Null });
            }
            report.merge_local(&mut l);
        }
    });
    rule.into()
}

// =========================================================================================
// C09 — stopping is safe at every poll (fault enumeration with hook H1)

#[derive(Clone, Debug)]
struct Triple {
    fen: String,
    moves: Vec<String>,
    depth: u8,
    hash_mb: usize,
    /// prior state: searches run before (same tables), deterministic
    warm: Vec<(String, Vec<String>, u8)>,
}

impl Triple {
    fn encode(&self) -> String {
        let w: Vec<String> = self.warm.iter().map(|(f, m, d)| format!("{f}|{}|{d}", m.join(" "))).collect();
        format!("{}#{}#{}#{}#{}", self.fen, self.moves.join(" "), self.depth, self.hash_mb, w.join("#"))
    }
    fn decode(t: &str) -> Option<Triple> {
        let p: Vec<&str> = t.split('#').collect();
        if p.len() < 4 {
            return None;
        }
        let mut warm = vec![];
        for w in p[4..].iter() {
            if w.is_empty() {
                continue;
            }
            let q: Vec<&str> = w.split('|').collect();
            warm.push((q[0].to_string(), q[1].split_whitespace().map(|x| x.to_string()).collect(), q[2].parse().ok()?));
        }
        Some(Triple { fen: p[0].into(), moves: p[1].split_whitespace().map(|x| x.to_string()).collect(), depth: p[2].parse().ok()?, hash_mb: p[3].parse().ok()?, warm })
    }
}

fn prior_state(t: &Triple) -> Option<PersistentState> {
    let mut ps = PersistentState::new(t.hash_mb);
    for (f, m, d) in t.warm.iter() {
        let (g, p) = build_game(f, m)?;
        if p.legal_moves().is_empty() {
            continue;
        }
        h1::arm(0);
        do_search(&g, &mut ps, &Limit::Depth(*d), 0).ok()?;
    }
    Some(ps)
}

fn game_fingerprint(g: &Game) -> String {
    format!("{} key={:x} hist={} phase={} pst={:?}", g.to_fen(), g.zobrist.0, g.history.len(), g.incremental_eval.phase_value, g.incremental_eval.piece_square_tables)
}

/// Enumerate every k for one triple. `only_k`: replay a single stop point.
fn enumerate_stops(t: &Triple, only_k: Option<u64>, l: &mut Local, max_polls: u64) -> Option<(String, String)> {
    let (g, p) = build_game(&t.fen, &t.moves)?;
    if p.legal_moves().is_empty() {
        return None;
    }
    let legal = p.legal_moves();
    let is_legal = |m: &Mv| legal.iter().any(|x| x.from == m.from && x.to == m.to && x.promo == m.promo);
    // unstopped run: count the polls
    let mut ps = prior_state(t)?;
    h1::arm(0);
    let base = do_search(&g, &mut ps, &Limit::Depth(t.depth), 0);
    let (n_polls, _, _, _) = h1::observed();
    if base.is_err() {
        l.feat("search_panicked_not_judged_here");
        return None;
    }
    if n_polls == 0 || n_polls > max_polls {
        l.feat(if n_polls == 0 { "triple_without_polls" } else { "triple_too_many_polls_skipped" });
        return None;
    }
    l.feat("triples_enumerated");
    l.feat_n("stop_points_enumerated", if only_k.is_some() { 1 } else { n_polls });
    let before = game_fingerprint(&g);
    let ks: Vec<u64> = match only_k {
        Some(k) => vec![k],
        None => (1..=n_polls).collect(),
    };
    for k in ks {
        l.evaluations += 1;
        let mut ps = prior_state(t)?;
        h1::arm(k);
        let r = do_search(&g, &mut ps, &Limit::Depth(t.depth), 0);
        let (polls, first_true, entries, after) = h1::observed();
        let stop_node = h1::take_stop_node();
        h1::arm(0);
        let ctx = format!("stop at poll {k} of {n_polls}");
        let out = match r {
            Ok(o) => o,
            Err((m, loc)) => return Some((format!("c09.panic@{}", short_loc(&loc)), format!("{ctx}: search panicked: {m} at {loc}"))),
        };
        if first_true != k {
            // the stopped run took a different path before the stop: determinism (C12) broken, or
            // the search ended before reaching poll k
            l.feat("stop_point_not_reached");
            let _ = polls;
            continue;
        }
        if !is_legal(&out.best) {
            return Some(("c09.illegal-move-after-stop".into(), format!("{ctx}: returned {} which is not legal", out.best.uci())));
        }
        if after != 0 {
            return Some(("c09.examined-positions-after-stop".into(), format!("{ctx}: {after} further positions were entered after the stop was observed ({entries} entries in total)")));
        }
        if game_fingerprint(&g) != before {
            return Some(("c09.position-modified".into(), format!("{ctx}: the position handed to the search changed")));
        }
        l.feat(&format!("completed_iterations_at_abort_{}", out.infos.len().min(12)));
        if out.infos.is_empty() {
            l.feat("fallback_to_first_picked_move");
        }
        // the tables remain usable where the search was when it unwound: the node at which the stop was
        // observed (hook H5 hands over the search's working copy) and every position on the path from it
        // back to the root are searched on the same tables
        if let Some(mut w) = stop_node {
            l.feat("stop_nodes_captured");
            let root_len = g.history.len();
            let mut walked = 0;
            while w.history.len() >= root_len && walked < 16 {
                let pa = game_to_ref(&w);
                let legal_a = pa.legal_moves();
                if !legal_a.is_empty() && pa.is_legal_position() {
                    let mut wa = w.clone();
                    // a search rooted here sees the game up to this point, like the aborted one did
                    match do_search(&wa, &mut ps, &Limit::Depth(2), 0) {
                        Err((m, loc)) => return Some((format!("c09.followup-panic@{}", short_loc(&loc)), format!("{ctx}: a later search on the same tables, rooted {walked} plies above the node where the stop was seen ({}), panicked: {m} at {loc}", w.to_fen()))),
                        Ok(o2) => {
                            l.feat("followup_searches_on_abort_path");
                            if !legal_a.iter().any(|x| x.from == o2.best.from && x.to == o2.best.to && x.promo == o2.best.promo) {
                                return Some(("c09.followup-illegal-move".into(), format!("{ctx}: a later search on the same tables, rooted {walked} plies above the node where the stop was seen ({}), returned the illegal move {}", w.to_fen(), o2.best.uci())));
                            }
                            let mut scratch = Local::default();
                            if let Some((sig, what)) = judge_infos(&pa, &o2.infos, Some(2), &mut scratch) {
                                return Some((format!("c09.followup.{sig}"), format!("{ctx}: a later search rooted on the abort path ({}) reported a bad line: {what}", w.to_fen())));
                            }
                        }
                    }
                    let _ = &mut wa;
                }
                if w.history.len() == root_len {
                    break;
                }
                match w.history.last().map(|h| h.mv.is_none()) {
                    Some(true) => w.undo_null_move(),
                    Some(false) => w.undo_move(),
                    None => break,
                }
                walked += 1;
            }
            l.feat_n("abort_path_plies_walked", walked);
        }
        // the tables remain usable: same position again, and the position after the returned move
        let follow_depth = t.depth.min(4).max(2);
        for which in 0..2 {
            let (g2, p2) = if which == 0 {
                (g.clone(), p.clone())
            } else {
                let m = legal.iter().find(|x| x.from == out.best.from && x.to == out.best.to && x.promo == out.best.promo).unwrap();
                let Some(e) = find_engine_move(&g, *m) else { continue };
                let mut g2 = g.clone();
                g2.make_move(e);
                (g2, p.make(*m))
            };
            let legal2 = p2.legal_moves();
            if legal2.is_empty() {
                continue;
            }
            match do_search(&g2, &mut ps, &Limit::Depth(follow_depth), 0) {
                Err((m, loc)) => return Some((format!("c09.followup-panic@{}", short_loc(&loc)), format!("{ctx}: a later search on the same tables panicked: {m} at {loc}"))),
                Ok(o2) => {
                    l.feat("followup_searches");
                    if !legal2.iter().any(|x| x.from == o2.best.from && x.to == o2.best.to && x.promo == o2.best.promo) {
                        return Some(("c09.followup-illegal-move".into(), format!("{ctx}: a later search on the same tables returned the illegal move {}", o2.best.uci())));
                    }
                    let mut scratch = Local::default();
                    if let Some((sig, what)) = judge_infos(&p2, &o2.infos, Some(follow_depth), &mut scratch) {
                        return Some((format!("c09.followup.{sig}"), format!("{ctx}: a later search on the same tables reported a bad line: {what}")));
                    }
                }
            }
        }
    }
    None
}

pub fn run_c09(args: &Args, seed: u64, tier: &str, report: &Report) -> String {
    let rule = "for each sampled (position, depth, prior table state): count the polls N of the unstopped search, then for EVERY k = 1..N rebuild the same prior state, make the stop flag read true from poll k on (hook H1), and check: legal move, no position entered after the stop was seen, input position untouched, later searches on the same tables legal with legal lines; distinct = (triple, k) pairs";
    let thorough = tier == "thorough";
    if let Some(c) = args.get("--triple") {
        let mut l = Local::default();
        l.distinct.insert(1);
        l.distinct.insert(2);
        let k = args.get("--k").map(|x| x.parse().unwrap());
        if let Some(t) = Triple::decode(c) {
            if let Some((sig, what)) = enumerate_stops(&t, k, &mut l, 100_000) {
                report.violation(Violation { monitor: "c09".into(), signature: sig, what, replay_args: vec![], detail: J::Null });
            }
        }
        l.evaluations = l.evaluations.max(1);
        report.merge_local(&mut l);
        return rule.into();
    }
    if let Some(c) = args.get("--expired") {
        let mut l = Local::default();
        l.distinct.insert(1);
        l.distinct.insert(2);
        let f: Vec<&str> = c.split('#').collect();
        if f.len() == 3 {
            let moves: Vec<String> = f[1].split_whitespace().map(|x| x.to_string()).collect();
            if let (Some((g, p)), Some(limit)) = (build_game(f[0], &moves), Limit::parse(f[2])) {
                let legal = p.legal_moves();
                // wall-clock dependent: try a few times
                for _ in 0..20 {
                    l.evaluations += 1;
                    let mut ps = PersistentState::new(1);
                    match do_search(&g, &mut ps, &limit, 0) {
                        Err((m, loc)) => {
                            report.violation(Violation { monitor: "c09".into(), signature: format!("c09.expired-limit.panic@{}", short_loc(&loc)), what: m, replay_args: vec![], detail: J::Null });
                            break;
                        }
                        Ok(out) => {
                            if !legal.iter().any(|x| x.from == out.best.from && x.to == out.best.to && x.promo == out.best.promo) {
                                report.violation(Violation { monitor: "c09".into(), signature: "c09.expired-limit.illegal-move".into(), what: out.best.uci(), replay_args: vec![], detail: J::Null });
                                break;
                            }
                        }
                    }
                }
            }
        }
        l.evaluations = l.evaluations.max(1);
        report.merge_local(&mut l);
        return rule.into();
    }
    let triples = args.u64("--triples", if thorough { 1_200 } else { 130 });
    let max_polls = if thorough { 150 } else { 70 };
    let roots = corpus_roots();
    run_shards(16, 512, |shard| {
        let mut l = Local::default();
        let mut rng = Rng::new(seed, 11_000 + shard as u64);
        // Always included: roots whose depth-1 search alone spans several polls, so that a stop is seen
        // before the first iteration completes (the fallback-move path). Selected by measuring.
        let mut heavy_done = 0;
        let mut heavy_tries = 0;
        while heavy_done < 1 && heavy_tries < 3_000 {
            heavy_tries += 1;
            let Some(p) = quiescence_heavy(&mut rng) else { continue };
            let polls = depth1_polls(&p, 16);
            if !(3..16).contains(&polls) {
                continue;
            }
            let t = Triple { fen: p.to_fen(EpConv::Always), moves: vec![], depth: 1, hash_mb: 1, warm: vec![] };
            l.feat("pos_quiescence_heavy");
            let ev_before = l.evaluations;
            let r = enumerate_stops(&t, None, &mut l, 60);
            let enc = t.encode();
            for k in 0..(l.evaluations - ev_before) {
                l.distinct.insert(hash_str(&format!("{enc}@{k}")));
            }
            if l.evaluations > ev_before {
                heavy_done += 1;
            }
            if let Some((sig, what)) = r {
                let k = what.split_whitespace().nth(3).unwrap_or("1").to_string();
                report.violation(Violation { monitor: "c09".into(), signature: sig, what, replay_args: vec!["c09".into(), "--triple".into(), enc, "--k".into(), k], detail: J::Null });
            }
            // the same kind of root, but reached by a move from a base position that was searched before on the same
            // tables: the working copy then has a game record to unwind into, and the tables hold a move for the base
            let mut quiet: Vec<Mv> = p.legal_moves().into_iter().filter(|m| !m.capture && m.promo.is_none()).collect();
            for _ in 0..quiet.len().min(6) {
                let m = quiet.swap_remove(rng.below(quiet.len() as u64) as usize);
                let child = p.make(m);
                if child.legal_moves().is_empty() || !(3..16).contains(&depth1_polls(&child, 16)) {
                    continue;
                }
                let base_fen = p.to_fen(EpConv::Always);
                let t2 = Triple { fen: base_fen.clone(), moves: vec![m.uci()], depth: 1, hash_mb: 1, warm: vec![(base_fen, vec![], 1)] };
                l.feat("heavy_root_with_game_record_and_warm_base");
                let ev_before = l.evaluations;
                let r2 = enumerate_stops(&t2, None, &mut l, 60);
                let enc2 = t2.encode();
                for k in 0..(l.evaluations - ev_before) {
                    l.distinct.insert(hash_str(&format!("{enc2}@{k}")));
                }
                if let Some((sig, what)) = r2 {
                    let k = what.split_whitespace().nth(3).unwrap_or("1").to_string();
                    report.violation(Violation { monitor: "c09".into(), signature: sig, what, replay_args: vec!["c09".into(), "--triple".into(), enc2, "--k".into(), k], detail: J::Null });
                }
                break;
            }
        }
        report.merge_local(&mut l);
        // An expired limit instead of a stop request: clocks and move times of a few milliseconds, which
        // run out at the first between-iterations poll or inside an early iteration. Same observables
        // except the H1 counters (which poll sees it first is up to the wall clock).
        for _ in 0..(if thorough { 400 } else { 24 }) {
            let Some((fen, moves, p)) = random_position(&mut rng, &roots, &mut l) else { continue };
            let Some((g, _)) = build_game(&fen, &moves) else { continue };
            let legal = p.legal_moves();
            if legal.is_empty() {
                continue;
            }
            let limit = match rng.below(3) {
                0 => Limit::Clock(1 + rng.below(12), 1 + rng.below(12), 0, 0, *rng.pick(&[None, Some(1), Some(30)])),
                1 => Limit::MoveTime(rng.below(4)),
                _ => Limit::Clock(1 + rng.below(4), 1, 0, 0, None),
            };
            let mut ps = PersistentState::new(1);
            if rng.chance(1, 2) {
                std::thread::sleep(std::time::Duration::from_millis(rng.below(3)));
            }
            l.evaluations += 1;
            l.feat("expired_limit_searches");
            let before = game_fingerprint(&g);
            let enc = format!("{fen}#{}#{}", moves.join(" "), limit.text());
            l.distinct.insert(hash_str(&enc));
            let verdict: Option<(String, String)> = match do_search(&g, &mut ps, &limit, 0) {
                Err((m, loc)) => Some((format!("c09.expired-limit.panic@{}", short_loc(&loc)), format!("search with {} panicked: {m} at {loc} [{}]", limit.text(), p.to_fen(EpConv::Always)))),
                Ok(out) => {
                    if !legal.iter().any(|x| x.from == out.best.from && x.to == out.best.to && x.promo == out.best.promo) {
                        Some(("c09.expired-limit.illegal-move".into(), format!("search with {} returned {} which is not legal in {}", limit.text(), out.best.uci(), p.to_fen(EpConv::Always))))
                    } else if game_fingerprint(&g) != before {
                        Some(("c09.position-modified".into(), "the position handed to the search changed".into()))
                    } else {
                        if out.infos.len() <= 1 {
                            l.feat("expired_limit_seen_by_depth_2");
                        }
                        match do_search(&g, &mut ps, &Limit::Depth(3), 0) {
                            Err((m, loc)) => Some((format!("c09.followup-panic@{}", short_loc(&loc)), format!("a later search on the same tables panicked: {m}"))),
                            Ok(o2) => {
                                let mut scratch = Local::default();
                                judge_infos(&p, &o2.infos, Some(3), &mut scratch).map(|(sig, what)| (format!("c09.followup.{sig}"), what))
                            }
                        }
                    }
                }
            };
            if let Some((sig, what)) = verdict {
                report.violation(Violation { monitor: "c09".into(), signature: sig, what, replay_args: vec!["c09".into(), "--expired".into(), enc], detail: J::Null });
            }
        }
        report.merge_local(&mut l);
        let mut done = 0;
        let mut tries = 0;
        while done < triples / 16 + 1 && tries < triples * 4 {
            tries += 1;
            let Some((fen, moves, p)) = random_position(&mut rng, &roots, &mut l) else { continue };
            let men = p.b.iter().flatten().count();
            let queens = p.b.iter().flatten().filter(|pc| pc.k == Kind::Q).count();
            if queens >= 8 {
                continue; // measured-heavy roots are enumerated separately above, with a bounded poll count
            }
            let depth = if men <= 6 { 8 + rng.below(5) as u8 } else { 6 + rng.below(4) as u8 };
            let warm = match rng.below(3) {
                0 => vec![],
                1 => {
                    l.feat("prior_state_warm_same_position");
                    vec![(fen.clone(), moves.clone(), 3 + rng.below(3) as u8)]
                }
                _ => {
                    l.feat("prior_state_from_another_position");
                    match random_position(&mut rng, &roots, &mut l) {
                        Some((f2, m2, _)) => vec![(f2, m2, 3 + rng.below(3) as u8)],
                        None => vec![],
                    }
                }
            };
            // (hash size 0 as well: with no table there is never a hash move, which is when searches fall back on
            // whatever they do without one)
            let t = Triple { fen, moves, depth, hash_mb: *rng.pick(&[0usize, 1, 2, 16]), warm };
            let before = l.features.get("triples_enumerated").copied().unwrap_or(0);
            let ev_before = l.evaluations;
            let r = enumerate_stops(&t, None, &mut l, max_polls);
            let enc = t.encode();
            if l.features.get("triples_enumerated").copied().unwrap_or(0) > before {
                done += 1;
                for k in 0..(l.evaluations - ev_before) {
                    l.distinct.insert(hash_str(&format!("{enc}@{k}")));
                }
                if l.samples.len() < 1 && shard < 3 {
                    l.samples.push(jo(vec![("triple", js(&enc)), ("stop_points", J::U(l.evaluations - ev_before))]));
                }
            }
            if let Some((sig, what)) = r {
                let k = what.split_whitespace().nth(3).unwrap_or("1").to_string();
                report.violation(Violation { monitor: "c09".into(), signature: sig, what, replay_args: vec!["c09".into(), "--triple".into(), enc, "--k".into(), k], detail: J::Null });
            }
            report.merge_local(&mut l);
        }
    });
    rule.into()
}

// =========================================================================================
// C11 (search level) — the fifty-move draw as the search applies it

/// No mate line may pass through a position that is already drawn by the fifty-move rule.
fn mate_line_crosses_fifty(root: &Pos, inf: &InfoRec) -> Option<String> {
    inf.mate?;
    let mut p = root.clone();
    for (i, m) in inf.pv.iter().enumerate() {
        let legal = p.legal_moves();
        let x = legal.iter().find(|x| x.from == m.from && x.to == m.to && x.promo == m.promo)?;
        p = p.make(*x);
        if i + 1 < inf.pv.len() && p.hmc >= 100 && !p.legal_moves().is_empty() {
            return Some(format!("after {} plies of the announced mate line the halfmove clock is {} and the side to move has a legal move: the game is drawn there", i + 1, p.hmc));
        }
    }
    None
}

pub fn run_c11_search(args: &Args, seed: u64, tier: &str, report: &Report) -> String {
    let rule = "search level: (a) roots with halfmove clock 99 where every legal move is a quiet piece move: the reported score of every iteration must be 'mate 1' if a legal move checkmates and exactly 0 otherwise; (b) no announced mate line passes through a position with clock >= 100 in which the side to move has a legal move; distinct = distinct (FEN, depth)";
    let thorough = tier == "thorough";
    let judge = |fen: &str, depth: u8, l: &mut Local| -> Option<(String, String)> {
        let p = Pos::from_fen(fen).ok()?;
        let g = Game::from_fen(fen).ok()?;
        let legal = p.legal_moves();
        if legal.is_empty() {
            return None;
        }
        let all_quiet = p.hmc == 99 && legal.iter().all(|m| !m.capture && p.b[m.from as usize].map(|x| x.k) != Some(Kind::P));
        let mut ps = PersistentState::new(1);
        l.evaluations += 1;
        let out = match do_search(&g, &mut ps, &Limit::Depth(depth), 0) {
            Ok(o) => o,
            Err(_) => {
                l.feat("search_panicked_not_judged_here");
                return None;
            }
        };
        for inf in out.infos.iter() {
            if let Some(t) = mate_line_crosses_fifty(&p, inf) {
                return Some(("c11.search.mate-through-fifty-move-draw".into(), format!("{t}: {} [{fen} depth {depth}]", inf.text())));
            }
            if inf.mate.is_some() {
                l.feat("mate_lines_checked_against_the_clock");
            }
        }
        // A quiet move that stalemates the opponent is outside this oracle: at the horizon the engine
        // hands such a child to the capture search, which (like most engines') does not look for
        // stalemate and returns the static evaluation - unrelated to the fifty-move rule.
        let stalemating_move = legal.iter().any(|m| {
            let n = p.make(*m);
            !n.in_check(n.stm) && n.legal_moves().is_empty()
        });
        if all_quiet && stalemating_move {
            l.feat("clock_99_roots_skipped_stalemating_move");
        }
        if all_quiet && !stalemating_move {
            l.feat("clock_99_all_moves_quiet_roots");
            let mates_in_one = legal.iter().any(|m| p.make(*m).is_checkmate());
            if mates_in_one {
                l.feat("clock_99_mate_on_the_100th_halfmove");
            }
            if legal.iter().any(|m| {
                let n = p.make(*m);
                n.in_check(n.stm) && !n.legal_moves().is_empty()
            }) {
                l.feat("clock_99_root_with_a_non_mating_check");
            }
            for inf in out.infos.iter() {
                let ok = if mates_in_one { inf.mate == Some(1) } else { inf.cp == Some(0) };
                if !ok {
                    let sig = if mates_in_one { "c11.search.mate-on-100th-halfmove-not-seen" } else { "c11.search.fifty-move-draw-not-applied" };
                    return Some((sig.into(), format!("clock 99, every move is a quiet piece move, {}: expected {}, engine reports {} [{fen} depth {depth}]", if mates_in_one { "one of them checkmates" } else { "none checkmates" }, if mates_in_one { "mate 1" } else { "score 0" }, inf.text())));
                }
            }
        }
        None
    };
    // (c) A repetition verdict depends on the game record; the table key does not. A position of the record's reversible
    // tail can only ever be reached by this search as a repetition (nothing irreversible can lead back to it), and a
    // repetition returns before anything is stored - so after a search on fresh tables the table must hold NOTHING under
    // the keys of those positions. (The four oldest are not audited: each null move in a line moves the engine's scan
    // window by one, and at these depths a line holds at most one.) An entry there is a history-dependent verdict filed
    // where a search with another history will read it.
    let audit = |fen: &str, moves: &[String], depth: u8, l: &mut Local| -> Option<(String, String)> {
        let mut g = Game::from_fen(fen).ok()?;
        let mut p = Pos::from_fen(fen).ok()?;
        let mut keys: Vec<(u64, String)> = vec![];
        for t in moves {
            keys.push((g.zobrist.0, p.to_fen(EpConv::Always)));
            let m = p.find_uci(t)?;
            let e = find_engine_move(&g, m)?;
            g.make_move(e);
            p = p.make(m);
        }
        if p.legal_moves().is_empty() {
            return None;
        }
        let root_key = g.zobrist.0;
        let mut ps = PersistentState::new(1);
        l.evaluations += 1;
        if do_search(&g, &mut ps, &Limit::Depth(depth), 0).is_err() {
            l.feat("search_panicked_not_judged_here");
            return None;
        }
        l.feat("tail_audits");
        for (i, (k, f)) in keys.iter().enumerate().skip(4) {
            if *k == root_key {
                continue;
            }
            l.feat("tail_positions_audited");
            if let Some(e) = ps.tt.get(&ZobristHash(*k)) {
                return Some(("c11.search.verdict-of-a-repetition-left-in-the-table".into(), format!(
                    "after a depth-{depth} search on fresh tables of the game '{fen}' + {} moves, the table holds an entry ({:?}, score {}, depth {}) under the key of position {i} of the game record ({f}), which this search can only have reached as a repetition",
                    moves.len(), e.bound, e.eval.0, e.depth)));
            }
        }
        None
    };
    if let Some(a) = args.get("--audit") {
        let f: Vec<&str> = a.split('#').collect();
        let mut l = Local::default();
        l.distinct.insert(1);
        l.distinct.insert(2);
        if f.len() == 3 {
            let moves: Vec<String> = f[1].split_whitespace().map(|x| x.to_string()).collect();
            if let Some((sig, what)) = audit(f[0], &moves, f[2].parse().unwrap_or(3), &mut l) {
                report.violation(Violation { monitor: "c11".into(), signature: sig, what, replay_args: vec![], detail: J::Null });
            }
        }
        l.evaluations = l.evaluations.max(1);
        report.merge_local(&mut l);
        return rule.into();
    }
    if let Some(fen) = args.get("--fen") {
        let depth = args.u64("--depth", 4) as u8;
        let mut l = Local::default();
        l.distinct.insert(1);
        l.distinct.insert(2);
        if let Some((sig, what)) = judge(fen, depth, &mut l) {
            report.violation(Violation { monitor: "c11".into(), signature: sig, what, replay_args: vec![], detail: J::Null });
        }
        l.evaluations = l.evaluations.max(1);
        report.merge_local(&mut l);
        return rule.into();
    }
    let cases = args.u64("--cases", if thorough { 120_000 } else { 6_000 });
    let roots = corpus_roots();
    run_shards(16, 256, |shard| {
        let mut l = Local::default();
        let mut rng = Rng::new(seed, 13_000 + shard as u64);
        let mut made = 0;
        let mut tries = 0;
        while made < cases / 16 && tries < cases * 10 {
            tries += 1;
            let p: Pos = match rng.below(10) {
                0..=5 => {
                    // pawnless, piece-rich positions with no capture available
                    let c = SynthCfg { max_extra: *rng.pick(&[2usize, 3, 4, 5, 7]), wild: true, focus: false, castling: false };
                    let Some(mut p) = synth(&mut rng, &c) else { continue };
                    for s in 0..64 {
                        if matches!(p.b[s], Some(pc) if pc.k == Kind::P) {
                            p.b[s] = None;
                        }
                    }
                    p.hmc = 99;
                    if !p.is_legal_position() || p.legal_moves().iter().any(|m| m.capture) {
                        continue;
                    }
                    p
                }
                6..=7 => {
                    let mut p = Pos::from_fen(*rng.pick(&MATE_ROOTS)).unwrap();
                    p.hmc = *rng.pick(&[94u32, 96, 97, 98, 99]);
                    p
                }
                _ => {
                    let mut p = rng.pick(&roots).clone();
                    for _ in 0..rng.below(30) {
                        let legal = p.legal_moves();
                        if legal.is_empty() {
                            break;
                        }
                        p = p.make(pick_move(&p, &legal, &mut rng));
                    }
                    p.hmc = *rng.pick(&[96u32, 97, 98, 99]);
                    p
                }
            };
            if !p.is_legal_position() || p.legal_moves().is_empty() {
                continue;
            }
            made += 1;
            let depth = 1 + rng.below(if p.b.iter().flatten().count() <= 6 { 6 } else { 4 }) as u8;
            let fen = p.to_fen(EpConv::Always);
            l.distinct.insert(hash_str(&format!("{fen}@{depth}")));
            if made == 3 && shard < 2 {
                l.samples.push(js(format!("{fen} depth {depth}")));
            }
            if let Some((sig, what)) = judge(&fen, depth, &mut l) {
                report.violation(Violation { monitor: "c11".into(), signature: sig, what, replay_args: vec!["c11s".into(), "--fen".into(), fen, "--depth".into(), depth.to_string()], detail: J::Null });
            }
            if made % 50 == 0 {
                report.merge_local(&mut l);
            }
        }
        // (c) table audit after searches of games with a long reversible tail
        let mut done = 0;
        let mut tries = 0;
        while done < (cases / 16 / 12).max(4) && tries < cases {
            tries += 1;
            let mut p = rng.pick(&roots).clone();
            p.hmc = 0;
            if !p.is_legal_position() {
                continue;
            }
            let fen = p.to_fen(EpConv::Always);
            let want = 8 + rng.below(10) as usize;
            let mut moves: Vec<String> = vec![];
            let mut q = p.clone();
            while moves.len() < want {
                let cand: Vec<Mv> = q.legal_moves().into_iter().filter(|m| !m.capture && !m.castle && m.promo.is_none() && !matches!(q.b[m.from as usize], Some(pc) if pc.k == Kind::P) && !q.make(*m).legal_moves().is_empty()).collect();
                if cand.is_empty() {
                    break;
                }
                let m = *rng.pick(&cand);
                q = q.make(m);
                moves.push(m.uci());
            }
            if moves.len() < 8 {
                continue;
            }
            done += 1;
            let depth = 2 + rng.below(3) as u8;
            l.distinct.insert(hash_str(&format!("audit {fen} {} {depth}", moves.join(" "))));
            if let Some((sig, what)) = audit(&fen, &moves, depth, &mut l) {
                report.violation(Violation { monitor: "c11".into(), signature: sig, what, replay_args: vec!["c11s".into(), "--audit".into(), format!("{fen}#{}#{depth}", moves.join(" "))], detail: J::Null });
            }
        }
        report.merge_local(&mut l);
    });
    rule.into()
}
