//! C14 (limits part) — time allocation never exceeds what the clock allows. Uses hook H2.

use crate::chess::game::Game;
use crate::engine::options::EngineOptions;
use crate::engine::search::time_control::TimeStrategy;
use crate::engine::search::{Clocks, TimeControl};
use crate::util::*;
use std::time::Duration;

#[derive(Clone, Debug)]
struct Tuple {
    remaining: u64,
    other: Option<u64>,
    inc: u64,
    mtg: Option<u32>,
    overhead: u64,
    black: bool,
}

impl Tuple {
    fn encode(&self) -> String {
        format!("{},{},{},{},{},{}", self.remaining, self.other.map(|x| x as i64).unwrap_or(-1), self.inc, self.mtg.map(|x| x as i64).unwrap_or(-1), self.overhead, self.black as u8)
    }
    fn decode(t: &str) -> Option<Tuple> {
        let p: Vec<i64> = t.split(',').map(|x| x.parse().ok()).collect::<Option<Vec<_>>>()?;
        Some(Tuple { remaining: p[0] as u64, other: if p[1] < 0 { None } else { Some(p[1] as u64) }, inc: p[2] as u64, mtg: if p[3] < 0 { None } else { Some(p[3] as u32) }, overhead: p[4] as u64, black: p[5] != 0 })
    }
}

fn check(t: &Tuple, white: &Game, black: &Game, l: &mut Local) -> Option<(String, String)> {
    l.evaluations += 1;
    let g = if t.black { black } else { white };
    let mine = Some(Duration::from_millis(t.remaining));
    let theirs = t.other.map(Duration::from_millis);
    let inc = Some(Duration::from_millis(t.inc));
    let clocks = if t.black {
        Clocks { white_clock: theirs, black_clock: mine, white_increment: if t.other.is_some() { inc } else { None }, black_increment: inc, moves_to_go: t.mtg }
    } else {
        Clocks { white_clock: mine, black_clock: theirs, white_increment: inc, black_increment: if t.other.is_some() { inc } else { None }, moves_to_go: t.mtg }
    };
    let mut options = EngineOptions::default();
    options.move_overhead = t.overhead as usize;
    let r = guarded(|| {
        let (ts, _c) = TimeStrategy::new(g, &TimeControl::Clocks(clocks), &options);
        ts.verif_limits()
    });
    let (soft, hard) = match r {
        Ok(v) => v,
        Err((m, loc)) => return Some((format!("c14.panic@{}", short_loc(&loc)), format!("computing the limits panicked: {m}"))),
    };
    // the bound: half of the remaining time after overhead. The code computes in f32
    // (Duration::mul_f32), so one f32 ulp of the remaining time (2^-23 relative) + 1 us is allowed.
    let after_overhead = t.remaining.saturating_sub(t.overhead) as f64 / 1000.0;
    let bound = 0.5 * after_overhead;
    let tol = after_overhead * (1.0 / 8_388_608.0) + 1e-6;
    if hard.as_secs_f64() > bound + tol {
        return Some(("c14.hard-exceeds-half".into(), format!("hard limit {:?} > half of remaining-after-overhead {:.6}s", hard, bound)));
    }
    if soft > hard {
        return Some(("c14.soft-exceeds-hard".into(), format!("soft limit {:?} > hard limit {:?}", soft, hard)));
    }
    if t.remaining < 200 {
        l.feat("remaining_below_200ms");
    }
    if t.other.is_none() {
        l.feat("only_one_sides_time_supplied");
    }
    if t.mtg == Some(1) {
        l.feat("moves_to_go_1");
    }
    if t.mtg == Some(u32::MAX) {
        l.feat("moves_to_go_u32_max");
    }
    if t.overhead * 2 == t.remaining {
        l.feat("overhead_exactly_half");
    }
    None
}

pub fn run(args: &Args, seed: u64, tier: &str, report: &Report) -> String {
    let rule = "dense grid (run completely) + random (remaining, increment, moves-to-go >= 1, overhead <= remaining/2, side, other side's time supplied or not) tuples: hard <= (remaining-overhead)/2 within one f32 ulp, soft <= hard, no panic; fixed move time returned unchanged; distinct = distinct tuples";
    let thorough = tier == "thorough";
    let white = Game::new();
    let black = Game::from_fen("rnbqkbnr/pppppppp/8/8/4P3/8/PPPP1PPP/RNBQKBNR b KQkq - 0 1").unwrap();
    if let Some(t) = args.get("--tuple") {
        let mut l = Local::default();
        l.distinct.insert(1);
        l.distinct.insert(2);
        if let Some(t) = Tuple::decode(t) {
            if let Some((sig, what)) = check(&t, &white, &black, &mut l) {
                report.violation(Violation { monitor: "c14".into(), signature: sig, what, replay_args: vec![], detail: J::Null });
            }
        }
        report.merge_local(&mut l);
        return rule.into();
    }
    let remaining: Vec<u64> = vec![1, 2, 3, 5, 10, 20, 50, 99, 100, 101, 150, 199, 200, 201, 500, 999, 1_000, 2_000, 5_000, 10_000, 30_000, 60_000, 180_000, 300_000, 600_000, 1_800_000, 3_600_000, 7_200_000, 36_000_000, 86_400_000];
    let incs: Vec<u64> = vec![0, 1, 10, 100, 1_000, 10_000, 60_000];
    let mtgs: Vec<Option<u32>> = vec![None, Some(1), Some(2), Some(5), Some(20), Some(40), Some(1_000), Some(u32::MAX)];
    let mut grid: Vec<Tuple> = vec![];
    for r in remaining.iter() {
        for i in incs.iter() {
            for m in mtgs.iter() {
                for o in [0u64, 1, 10, 100, 1_000, (r / 2).min(1_000)] {
                    if o * 2 > *r {
                        continue;
                    }
                    for black in [false, true] {
                        for other in [Some(*r), None, Some(1)] {
                            grid.push(Tuple { remaining: *r, other, inc: *i, mtg: *m, overhead: o, black });
                        }
                    }
                }
            }
        }
    }
    report.extra("x_grid_tuples", J::U(grid.len() as u64));
    let random: u64 = if thorough { 30_000_000 } else { 2_000_000 };
    run_shards(16, 16, |shard| {
        let mut l = Local::default();
        for (i, t) in grid.iter().enumerate() {
            if i % 16 != shard {
                continue;
            }
            l.distinct.insert(hash_str(&t.encode()));
            l.feat("grid_tuples");
            if let Some((sig, what)) = check(t, &white, &black, &mut l) {
                report.violation(Violation { monitor: "c14".into(), signature: sig, what: format!("{what} [{t:?}]"), replay_args: vec!["c14".into(), "--tuple".into(), t.encode()], detail: J::Null });
            }
        }
        if shard == 0 {
            l.samples.push(js(format!("{:?}", grid[grid.len() / 3])));
        }
        let mut rng = Rng::new(seed, 12_000 + shard as u64);
        for i in 0..random / 16 {
            let r = match rng.below(4) {
                0 => 1 + rng.below(300),
                1 => 1 + rng.below(10_000),
                2 => 1 + rng.below(1_000_000),
                _ => 1 + rng.below(86_400_000),
            };
            let t = Tuple {
                remaining: r,
                other: match rng.below(3) {
                    0 => None,
                    1 => Some(r),
                    _ => Some(rng.below(86_400_000)),
                },
                inc: *rng.pick(&[0u64, 0, 1, 7, 100, 1_000, 30_000, 3_600_000]),
                mtg: match rng.below(4) {
                    0 => None,
                    1 => Some(1 + rng.below(3) as u32),
                    2 => Some(1 + rng.below(100) as u32),
                    _ => Some(1 + rng.below(u32::MAX as u64) as u32),
                },
                overhead: rng.below(r / 2 + 1).min(1_000),
                black: rng.chance(1, 2),
            };
            l.feat("random_tuples");
            l.distinct.insert(hash_str(&t.encode()));
            if let Some((sig, what)) = check(&t, &white, &black, &mut l) {
                report.violation(Violation { monitor: "c14".into(), signature: sig, what: format!("{what} [{t:?}]"), replay_args: vec!["c14".into(), "--tuple".into(), t.encode()], detail: J::Null });
            }
            if i % 100_000 == 0 {
                report.merge_local(&mut l);
            }
        }
        // a fixed move time is used as given
        for ms in [0u64, 1, 5, 50, 999, 1_000, 60_000, 86_400_000] {
            let options = EngineOptions::default();
            let d = Duration::from_millis(ms);
            let (ts, _c) = TimeStrategy::new(&white, &TimeControl::ExactTime(d), &options);
            l.evaluations += 1;
            l.feat("fixed_movetime_cases");
            if ts.verif_limits() != (d, d) {
                report.violation(Violation { monitor: "c14".into(), signature: "c14.movetime-not-as-given".into(), what: format!("movetime {ms} ms gives limits {:?}", ts.verif_limits()), replay_args: vec!["c14".into()], detail: J::Null });
            }
        }
        report.merge_local(&mut l);
    });
    rule.into()
}
