//! Self-test of the reference model against published perft counts, SAN and mirror sanity,
//! plus the `oracle` sub-commands the process-level drivers use.

use crate::gen;
use crate::refchess::*;
use crate::util::*;

const PERFT: [(&str, &[u64]); 6] = [
    (START_FEN, &[20, 400, 8902, 197281, 4865609]),
    (
        "r3k2r/p1ppqpb1/bn2pnp1/3PN3/1p2P3/2N2Q1p/PPPBBPPP/R3K2R w KQkq - 0 1",
        &[48, 2039, 97862, 4085603],
    ),
    (
        "8/2p5/3p4/KP5r/1R3p1k/8/4P1P1/8 w - - 0 1",
        &[14, 191, 2812, 43238, 674624],
    ),
    (
        "r3k2r/Pppp1ppp/1b3nbN/nP6/BBP1P3/q4N2/Pp1P2PP/R2Q1RK1 w kq - 0 1",
        &[6, 264, 9467, 422333],
    ),
    (
        "rnbq1k1r/pp1Pbppp/2p5/8/2B5/8/PPP1NnPP/RNBQK2R w KQ - 1 8",
        &[44, 1486, 62379, 2103487],
    ),
    (
        "r4rk1/1pp1qppp/p1np1n2/2b1p1B1/2B1P1b1/P1NP1N2/1PP1QPPP/R4RK1 w - - 0 10",
        &[46, 2079, 89890, 3894594],
    ),
];

pub fn run(_args: &Args, report: &Report) -> String {
    let fails = std::sync::Mutex::new(Vec::<String>::new());
    // perft, one thread per (position, first move) so the deep ones finish quickly
    let mut jobs: Vec<(usize, usize)> = vec![];
    for (i, (_, counts)) in PERFT.iter().enumerate() {
        for d in 0..counts.len() {
            jobs.push((i, d));
        }
    }
    run_shards(jobs.len(), 16, |j| {
        let (i, d) = jobs[j];
        let (fen, counts) = PERFT[i];
        let p = Pos::from_fen(fen).unwrap();
        let got = p.perft(d as u32 + 1);
        if got != counts[d] {
            fails
                .lock()
                .unwrap()
                .push(format!("perft({}) of {fen}: got {got}, published {}", d + 1, counts[d]));
        }
        let mut l = Local::default();
        l.evaluations = 1;
        l.distinct.insert(hash_str(&format!("{fen}{d}")));
        report.merge_local(&mut l);
    });
    // SAN spot checks against hand-verified strings
    let san_cases: [(&str, &str, &str); 9] = [
        (START_FEN, "e2e4", "e4"),
        (START_FEN, "g1f3", "Nf3"),
        ("R6R/8/8/8/8/8/8/1k4K1 w - - 0 1", "a8b8", "Rab8+"),
        ("R7/8/8/8/8/1k4K1/8/R7 w - - 0 1", "a1a3", "R1a3+"),
        ("1k1K4/8/8/8/4Q2Q/8/8/7Q w - - 0 1", "h4e1", "Qh4e1"),
        ("4k3/8/8/8/8/5N2/8/1N2K3 w - - 0 1", "b1d2", "Nbd2"),
        ("5k2/8/8/8/8/8/8/R3K3 w Q - 0 1", "e1c1", "O-O-O"),
        ("3k4/8/8/8/8/8/8/R3K3 w Q - 0 1", "e1c1", "O-O-O+"),
        ("k7/6P1/8/8/8/8/8/K7 w - - 0 1", "g7g8q", "g8=Q+"),
    ];
    for (fen, mv, want) in san_cases {
        let p = Pos::from_fen(fen).unwrap();
        match p.find_uci(mv) {
            None => fails.lock().unwrap().push(format!("san: {mv} not legal in {fen}")),
            Some(m) => {
                let got = p.san(m);
                if got != want {
                    fails
                        .lock()
                        .unwrap()
                        .push(format!("san {fen} {mv}: got {got}, want {want}"));
                }
            }
        }
    }
    // mirror is an involution and preserves the move count; corpus is legal
    for p in gen::corpus_roots() {
        let m = p.mirror();
        if m.mirror() != p {
            fails.lock().unwrap().push(format!("mirror not involutive: {}", p.to_fen(EpConv::Always)));
        }
        if m.legal_moves().len() != p.legal_moves().len() {
            fails.lock().unwrap().push(format!("mirror changes move count: {}", p.to_fen(EpConv::Always)));
        }
        let rt = Pos::from_fen(&p.to_fen(EpConv::Always)).unwrap();
        if rt != p {
            fails.lock().unwrap().push(format!("ref FEN round trip: {}", p.to_fen(EpConv::Always)));
        }
    }
    // exact SEE sanity
    let see_cases: [(&str, &str, Option<bool>); 6] = [
        ("4k3/8/8/3p4/4P3/8/8/4K3 w - - 0 1", "e4d5", Some(true)),
        ("4k3/8/2p5/3p4/4P3/8/8/4K3 w - - 0 1", "e4d5", Some(true)),
        ("4k3/8/2p5/3p4/8/8/3R4/4K3 w - - 0 1", "d2d5", Some(false)),
        ("4k3/8/2p5/3r4/8/8/3R4/4K3 w - - 0 1", "d2d5", Some(true)),
        ("4k3/3r4/2p5/3p4/8/8/3R4/3RK3 w - - 0 1", "d2d5", Some(false)),
        ("4k3/8/8/3p4/8/8/8/3RK3 w - - 0 1", "d1d5", Some(true)),
    ];
    for (fen, mv, want) in see_cases {
        let p = Pos::from_fen(fen).unwrap();
        let m = p.find_uci(mv).unwrap();
        let got = see_exact(&p, m);
        let ok = match (got, want) {
            (SeeVerdict::Agreed(b), Some(w)) => b == w,
            _ => false,
        };
        if !ok {
            fails.lock().unwrap().push(format!("see_exact {fen} {mv}: got {got:?}, want {want:?}"));
        }
    }
    for f in fails.into_inner().unwrap() {
        report.violation(Violation {
            monitor: "selftest".into(),
            signature: "selftest".into(),
            what: f,
            replay_args: vec!["selftest".into()],
            detail: J::Null,
        });
    }
    "reference model vs published perft counts, SAN examples, mirror involution".to_string()
}

/// `vharness oracle <what> ...` — services for the process-level drivers; prints plain
/// lines on stdout. Everything here comes from refchess, never from the engine.
pub fn oracle(args: &Args) {
    let what = args.v.first().map(|s| s.as_str()).unwrap_or("");
    match what {
        // legal <fen> [moves...]: prints final FEN under each convention and the legal reply set
        "legal" => {
            let fen = args.get("--fen").unwrap_or(START_FEN);
            let mut p = Pos::from_fen(fen).expect("fen");
            if let Some(ms) = args.get("--moves") {
                for t in ms.split_whitespace() {
                    let m = p.find_uci(t).unwrap_or_else(|| panic!("illegal move {t}"));
                    p = p.make(m);
                }
            }
            println!("legalpos {}", p.is_legal_position());
            for c in EP_CONVS {
                println!("fen {:?} {}", c, p.to_fen(c));
            }
            let mut ms: Vec<String> = p.legal_moves().iter().map(|m| m.uci()).collect();
            ms.sort();
            println!("moves {}", ms.join(" "));
            println!("incheck {}", p.in_check(p.stm));
        }
        // games --n N --seed S [--max-plies P]: random legal games with the expected final
        // position (under each target-recording convention) and the expected reply set
        "games" => {
            let n = args.u64("--n", 100);
            let seed = args.u64("--seed", 1);
            let max_plies = args.u64("--max-plies", 120);
            // --long K: the first K games are kept alive on purpose (material conserved, a pawn move or capture
            // before the 75-move rule would end the game, no fivefold repetition) and run to 820..2500 plies, so
            // that the 'position' line is several kilobytes long - still a legal game a GUI can send
            let long = args.u64("--long", 0);
            let roots = gen::corpus_roots();
            let mut rng = Rng::new(seed, 777);
            let mut made = 0;
            while made < n {
                let is_long = made < long;
                let from_start = is_long || rng.chance(1, 2);
                let root = if from_start { Pos::start() } else { rng.pick(&roots).clone() };
                let mut p = root.clone();
                let mut moves: Vec<String> = vec![];
                let len = if is_long {
                    820 + rng.below(1700)
                } else {
                    match rng.below(6) {
                        0 => 0,
                        1 => rng.below(8),
                        5 => max_plies * 4,
                        _ => rng.below(max_plies),
                    }
                };
                let mut feats = std::collections::BTreeSet::new();
                let mut seen: std::collections::HashMap<String, u32> = std::collections::HashMap::new();
                for _ in 0..len {
                    let legal = p.legal_moves();
                    if legal.is_empty() || p.hmc >= 140 {
                        break;
                    }
                    let mut m = gen::pick_move(&p, &legal, &mut rng);
                    if is_long {
                        let is_pawn = |x: &Mv| matches!(p.b[x.from as usize], Some(pc) if pc.k == Kind::P);
                        let resets: Vec<Mv> = legal.iter().copied().filter(|x| x.capture || is_pawn(x)).collect();
                        let keeps: Vec<Mv> = legal.iter().copied().filter(|x| !x.capture && !is_pawn(x)).collect();
                        let mut chosen = None;
                        for _try in 0..12 {
                            let c = if p.hmc >= 100 && !resets.is_empty() {
                                *rng.pick(&resets)
                            } else if !keeps.is_empty() && rng.chance(19, 20) {
                                *rng.pick(&keeps)
                            } else {
                                *rng.pick(&legal)
                            };
                            let n = p.make(c);
                            let key = n.to_fen(EpConv::Legal).rsplitn(3, ' ').last().unwrap_or("").to_string();
                            if n.legal_moves().is_empty() || seen.get(&key).copied().unwrap_or(0) >= 3 {
                                continue;
                            }
                            *seen.entry(key).or_insert(0) += 1;
                            chosen = Some(c);
                            break;
                        }
                        match chosen {
                            Some(c) => m = c,
                            None => break,
                        }
                        feats.insert("long_game");
                    }
                    if m.castle {
                        feats.insert("castle");
                    }
                    if m.ep {
                        feats.insert("ep");
                    }
                    match m.promo {
                        Some(Kind::Q) => {
                            feats.insert("promo_q");
                        }
                        Some(Kind::R) => {
                            feats.insert("promo_r");
                        }
                        Some(Kind::B) => {
                            feats.insert("promo_b");
                        }
                        Some(Kind::N) => {
                            feats.insert("promo_n");
                        }
                        _ => {}
                    }
                    p = p.make(m);
                    moves.push(m.uci());
                }
                let mut replies: Vec<String> = p.legal_moves().iter().map(|m| m.uci()).collect();
                replies.sort();
                println!(
                    "game\t{}\t{}\t{}\t{}\t{}\t{}\t{}",
                    if from_start { "startpos".to_string() } else { root.to_fen(EpConv::Always) },
                    moves.join(" "),
                    p.to_fen(EpConv::Always),
                    p.to_fen(EpConv::Adjacent),
                    p.to_fen(EpConv::Legal),
                    replies.join(" "),
                    feats.into_iter().collect::<Vec<_>>().join(",")
                );
                made += 1;
            }
        }
        // sessions --n N --seed S: one game per session, presented as a GUI does during play: the same
        // root with growing (sometimes shrinking or repeated) move-list prefixes, each with its expectation
        "sessions" => {
            let n = args.u64("--n", 50);
            let seed = args.u64("--seed", 1);
            let roots = gen::corpus_roots();
            let mut rng = Rng::new(seed, 780);
            for sid in 0..n {
                let from_start = rng.chance(2, 3);
                let root = if from_start { Pos::start() } else { rng.pick(&roots).clone() };
                let mut line: Vec<(String, Pos)> = vec![];
                let mut p = root.clone();
                for _ in 0..(6 + rng.below(40)) {
                    let legal = p.legal_moves();
                    if legal.is_empty() {
                        break;
                    }
                    let m = gen::pick_move(&p, &legal, &mut rng);
                    p = p.make(m);
                    line.push((m.uci(), p.clone()));
                }
                let mut k = 0usize;
                let steps = 4 + rng.below(10);
                for _ in 0..steps {
                    k = match rng.below(8) {
                        0 => k,                                          // the same command again
                        1 => k.saturating_sub(1 + rng.below(3) as usize), // a take-back
                        _ => (k + 1 + rng.below(3) as usize).min(line.len()),
                    };
                    let pos = if k == 0 { root.clone() } else { line[k - 1].1.clone() };
                    let moves: Vec<String> = line[..k].iter().map(|x| x.0.clone()).collect();
                    let mut replies: Vec<String> = pos.legal_moves().iter().map(|m| m.uci()).collect();
                    replies.sort();
                    println!(
                        "step\t{}\t{}\t{}\t{}\t{}\t{}\t{}",
                        sid,
                        if from_start { "startpos".to_string() } else { root.to_fen(EpConv::Always) },
                        moves.join(" "),
                        pos.to_fen(EpConv::Always),
                        pos.to_fen(EpConv::Adjacent),
                        pos.to_fen(EpConv::Legal),
                        replies.join(" ")
                    );
                }
            }
        }
        // positions --n N --seed S: non-terminal legal positions (root + moves) with their legal moves
        "positions" => {
            let n = args.u64("--n", 100);
            let seed = args.u64("--seed", 1);
            let roots = gen::corpus_roots();
            let mut rng = Rng::new(seed, 778);
            let mut made = 0;
            while made < n {
                let root = if rng.chance(1, 3) { Pos::start() } else { rng.pick(&roots).clone() };
                let mut p = root.clone();
                let mut moves: Vec<String> = vec![];
                for _ in 0..rng.below(60) {
                    let legal = p.legal_moves();
                    if legal.is_empty() {
                        break;
                    }
                    let m = gen::pick_move(&p, &legal, &mut rng);
                    let nx = p.make(m);
                    if nx.legal_moves().is_empty() {
                        break;
                    }
                    p = nx;
                    moves.push(m.uci());
                }
                let mut replies: Vec<String> = p.legal_moves().iter().map(|m| m.uci()).collect();
                if replies.is_empty() {
                    continue;
                }
                replies.sort();
                println!("pos\t{}\t{}\t{}\t{}", root.to_fen(EpConv::Always), moves.join(" "), p.to_fen(EpConv::Always), replies.join(" "));
                made += 1;
            }
        }
        // repgames --n N --seed S: games (root FEN + move list) at whose end the side to move is hopelessly behind
        // in material but has one move that re-creates a position which already occurred in the game since the last
        // capture or pawn move. Output: `rep <root fen> <moves> <repeating move> <class>` (tab separated), class =
        // which earlier position is repeated (the first of the reversible tail - given by the FEN, or right after a
        // capture, or right after a pawn move - or a later one).
        "repgames" => {
            let n = args.u64("--n", 40);
            let seed = args.u64("--seed", 1);
            let mut rng = Rng::new(seed, 783);
            // (fen, weak side): no castling rights; the weak side has a bare king plus at most a pawn or a minor piece
            let bases: [(&str, Color); 10] = [
                ("6k1/8/8/8/8/8/8/R2Q2K1 w - - 0 1", Color::B),
                ("6k1/8/8/8/8/8/8/R2Q2K1 b - - 0 1", Color::B),
                ("1r2q1k1/8/8/8/8/8/8/6K1 b - - 0 1", Color::W),
                ("1r2q1k1/8/8/8/8/8/8/6K1 w - - 0 1", Color::W),
                ("6k1/7p/8/8/8/8/8/R2Q2K1 b - - 3 20", Color::B),
                ("1r2q1k1/8/8/8/8/8/7P/6K1 w - - 9 31", Color::W),
                ("8/6kP/8/8/8/8/8/R2Q2K1 b - - 5 40", Color::B),
                ("1r2q1k1/8/8/8/8/8/6Kp/8 w - - 12 40", Color::W),
                ("6k1/5n2/8/8/8/8/8/R2Q1RK1 w - - 0 1", Color::B),
                ("1r1rq1k1/8/8/8/8/8/5N2/6K1 b - - 2 9", Color::W),
            ];
            let ident = |p: &Pos| p.digest(None);
            let reversible = |p: &Pos, m: &Mv| !m.capture && !m.castle && m.promo.is_none() && !matches!(p.b[m.from as usize], Some(pc) if pc.k == Kind::P);
            let mut made = 0;
            let mut tries = 0;
            while made < n && tries < n * 4000 {
                tries += 1;
                let (base, weak) = *rng.pick(&bases);
                let root = Pos::from_fen(base).unwrap();
                let mut p = root.clone();
                let mut moves: Vec<String> = vec![];
                // index (in plies from the root) of the first position of the reversible tail, and how it arose
                let mut tail_start = 0usize;
                let mut tail_kind = if root.hmc == 0 { "fen-clock-0" } else { "fen-clock-positive" };
                let want = if rng.chance(1, 3) { 0 } else { rng.below(9) as usize };
                let mut ok = true;
                let mut guard = 0;
                // random prefix; stop once `want` plies are played AND the strong side is to move
                while moves.len() < want || p.stm == weak {
                    guard += 1;
                    let legal = p.legal_moves();
                    let cand: Vec<Mv> = legal.iter().copied().filter(|m| {
                        // the weak side never wins material (keeps the verdict obvious), nobody promotes
                        let takes_big = m.capture && p.stm == weak && matches!(p.b[m.to as usize], Some(pc) if pc.k != Kind::P);
                        !takes_big && m.promo.is_none() && !p.make(*m).legal_moves().is_empty()
                    }).collect();
                    if cand.is_empty() || guard > 30 {
                        ok = false;
                        break;
                    }
                    let m = *rng.pick(&cand);
                    let irreversible = !reversible(&p, &m);
                    let double_push = matches!(p.b[m.from as usize], Some(pc) if pc.k == Kind::P) && (rank_of(m.from) - rank_of(m.to)).abs() == 2;
                    if double_push {
                        ok = false; // keeps en-passant targets out of the identity question
                        break;
                    }
                    p = p.make(m);
                    moves.push(m.uci());
                    if irreversible {
                        tail_start = moves.len();
                        tail_kind = if m.capture { "after-capture" } else { "after-pawn-move" };
                    }
                }
                if !ok || p.stm == weak {
                    continue;
                }
                // with probability 1/2 insist on repeating the FIRST position of the tail
                if rng.chance(4, 5) && moves.len() != tail_start {
                    continue;
                }
                let j = moves.len();
                let pj = p.clone();
                // there and back: strong a, weak b, strong a^-1; then weak b^-1 re-creates pj
                let la: Vec<Mv> = pj.legal_moves().into_iter().filter(|m| reversible(&pj, m)).collect();
                if la.is_empty() {
                    continue;
                }
                let a = *rng.pick(&la);
                let p1 = pj.make(a);
                let lb: Vec<Mv> = p1.legal_moves().into_iter().filter(|m| reversible(&p1, m)).collect();
                if lb.is_empty() {
                    continue;
                }
                let b = *rng.pick(&lb);
                let p2 = p1.make(b);
                let Some(a_back) = p2.legal_moves().into_iter().find(|m| m.from == a.to && m.to == a.from && reversible(&p2, m)) else { continue };
                let p3 = p2.make(a_back);
                let Some(b_back) = p3.legal_moves().into_iter().find(|m| m.from == b.to && m.to == b.from && reversible(&p3, m)) else { continue };
                let p4 = p3.make(b_back);
                if ident(&p4) != ident(&pj) || p3.stm != weak || p3.legal_moves().is_empty() {
                    continue;
                }
                // the weak side must really be lost otherwise: it has no queen or rook, the other side has at least a
                // queen, or two rooks
                let strong = weak.other();
                if p3.count(weak, Kind::Q) + p3.count(weak, Kind::R) > 0 || (p3.count(strong, Kind::Q) == 0 && p3.count(strong, Kind::R) < 2) {
                    continue;
                }
                moves.push(a.uci());
                moves.push(b.uci());
                moves.push(a_back.uci());
                let class = if j == tail_start { format!("first-of-tail.{tail_kind}") } else { "later-in-tail".to_string() };
                // classes in turn, so that a run of N games has about N/4 of each
                let wanted = ["first-of-tail.fen", "first-of-tail.after-capture", "first-of-tail.after-pawn-move", "later-in-tail"][made as usize % 4];
                if !class.starts_with(wanted) && tries < n * 3000 {
                    continue;
                }
                let mut replies: Vec<String> = p3.legal_moves().iter().map(|m| m.uci()).collect();
                replies.sort();
                println!("rep\t{}\t{}\t{}\t{}\t{}", base, moves.join(" "), b_back.uci(), class, replies.join(" "));
                made += 1;
            }
        }
        // heavy --n N --seed S: legal positions whose depth-1 search is already huge (many queens)
        "heavy" => {
            crate::init();
            let n = args.u64("--n", 20);
            let seed = args.u64("--seed", 1);
            let mut rng = Rng::new(seed, 781);
            let mut made = 0;
            let mut tries = 0;
            while made < n && tries < n * 400 {
                tries += 1;
                let Some(p) = crate::mon_search::quiescence_heavy(&mut rng) else { continue };
                // keep those whose first iteration alone takes `--min-polls` polls (10 000 nodes each)
                let min_polls = args.u64("--min-polls", 5);
                let polls = crate::mon_search::depth1_polls(&p, min_polls);
                if args.flag("--print-polls") {
                    eprintln!("polls {polls}");
                }
                if polls < min_polls {
                    continue;
                }
                let mut replies: Vec<String> = p.legal_moves().iter().map(|m| m.uci()).collect();
                if replies.is_empty() {
                    continue;
                }
                replies.sort();
                let fen = p.to_fen(EpConv::Always);
                println!("pos\t{}\t\t{}\t{}", fen, fen, replies.join(" "));
                made += 1;
            }
        }
        // hostile --n N --seed S: corrupted FEN texts with our own verdict on rank widths
        "hostile" => {
            let n = args.u64("--n", 100);
            let seed = args.u64("--seed", 1);
            let roots = gen::corpus_roots();
            let mut rng = Rng::new(seed, 779);
            let mut l = Local::default();
            for _ in 0..n {
                let base = rng.pick(&roots).to_fen(EpConv::Adjacent);
                let t = crate::mon_fen::mutate(&base, &mut rng, &mut l);
                if t.contains('\n') || t.contains('\r') || t.contains('\0') {
                    continue;
                }
                println!("text\t{}", t);
            }
        }
        // checklines --file F: judge recorded `info` lines of real-binary searches with C08's oracle.
        // File: `search\t<root fen>\t<moves>\t<depth limit or ->` then `info\t<depth>\t<cp|mate>\t<value>\t<pv>` lines.
        "checklines" => {
            use crate::mon_search::{judge_infos, InfoRec};
            let text = std::fs::read_to_string(args.get("--file").expect("--file")).expect("read file");
            let mut cur: Option<(usize, Pos, Option<u8>, Vec<InfoRec>)> = None;
            let mut idx = 0usize;
            let mut lines_checked = 0u64;
            let mut mates = 0u64;
            let mut l = Local::default();
            let mut flush = |cur: &mut Option<(usize, Pos, Option<u8>, Vec<InfoRec>)>, l: &mut Local| {
                if let Some((i, p, lim, infos)) = cur.take() {
                    if let Some((sig, what)) = judge_infos(&p, &infos, lim, l) {
                        println!("bad\t{}\t{}\t{}", i, sig, what.replace('\n', " "));
                    }
                }
            };
            for line in text.lines() {
                let f: Vec<&str> = line.split('\t').collect();
                match f[0] {
                    "search" => {
                        flush(&mut cur, &mut l);
                        let mut p = if f[1] == "startpos" { Pos::start() } else { Pos::from_fen(f[1]).expect("fen") };
                        for t in f[2].split_whitespace() {
                            let m = p.find_uci(t).expect("legal move in search header");
                            p = p.make(m);
                        }
                        cur = Some((idx, p, f[3].parse().ok(), vec![]));
                        idx += 1;
                    }
                    "info" => {
                        if let Some((ci, _, _, infos)) = cur.as_mut() {
                            // a token that is not a move in long algebraic form (a line cut in the middle of a move, say)
                            if let Some(tok) = f[4].split_whitespace().find(|t| {
                                !t.is_ascii() || !(t.len() == 4 || t.len() == 5) || parse_sq(&t[0..2]).is_none() || parse_sq(&t[2..4]).is_none() || (t.len() == 5 && !"qrbn".contains(&t[4..5]))
                            }) {
                                if !f[4].is_empty() {
                                    println!("bad\t{}\tc08.malformed-pv-token\tthe reported line '{}' (depth {}) contains '{}', which is not a move in long algebraic form", ci, f[4], f[1], tok);
                                }
                            }
                            let val: i16 = f[3].parse().unwrap_or(0);
                            let pv: Vec<Mv> = f[4]
                                .split_whitespace()
                                .filter_map(|t| {
                                    let from = parse_sq(t.get(0..2)?)?;
                                    let to = parse_sq(t.get(2..4)?)?;
                                    let promo = match t.get(4..5) {
                                        Some("q") => Some(Kind::Q),
                                        Some("r") => Some(Kind::R),
                                        Some("b") => Some(Kind::B),
                                        Some("n") => Some(Kind::N),
                                        _ => None,
                                    };
                                    Some(Mv { from, to, promo, capture: false, ep: false, castle: false })
                                })
                                .collect();
                            lines_checked += 1;
                            if f[2] == "mate" {
                                mates += 1;
                            }
                            infos.push(InfoRec { depth: f[1].parse().unwrap_or(0), seldepth: 0, cp: if f[2] == "cp" { Some(val) } else { None }, mate: if f[2] == "mate" { Some(val) } else { None }, pv, nodes: 0, hashfull: 0, tbhits: 0 });
                        }
                    }
                    _ => {}
                }
            }
            flush(&mut cur, &mut l);
            println!("checked\t{}\t{}\t{}", idx, lines_checked, mates);
        }
        _ => {
            eprintln!("unknown oracle command {what}");
            std::process::exit(2);
        }
    }
}
