//! C02 / C03 / C15 — search-shaped make / null / undo histories over one `Game`, observed
//! after every operation.

use crate::bridge::*;
use crate::chess::game::{CastleRightsSide, Game};
use crate::chess::piece::{Piece, PieceKind};
use crate::chess::player::Player;
use crate::chess::zobrist::{self, ZobristHash};
use crate::engine::eval::{self, IncrementalEvalFields, PhasedEval};
use crate::gen::*;
use crate::refchess::*;
use crate::stream::game_from_pos;
use crate::util::*;
use std::collections::HashMap;
use std::sync::atomic::{AtomicBool, AtomicU64, Ordering};
use std::sync::Mutex;

#[derive(Clone, Copy, PartialEq, Eq)]
pub enum Prop {
    C02,
    C03,
    C15,
}

#[derive(Clone, PartialEq)]
pub struct Snap {
    squares: [Option<Piece>; 64],
    kinds: [u64; 12],
    raw_kinds: [u64; 6],
    occ: [u64; 2],
    player: Player,
    cr: [bool; 4],
    ep: Option<u8>,
    hmc: u32,
    plies: u32,
    zob: u64,
    phase: i16,
    pst: PhasedEval,
    hist_len: usize,
    fen: String,
}

fn snap(g: &Game) -> Snap {
    let mut squares = [None; 64];
    for s in 0..64u8 {
        squares[s as usize] = g.board.piece_at(esq(s));
    }
    let mut kinds = [0u64; 12];
    for (i, k) in PieceKind::ALL.iter().enumerate() {
        kinds[i] = g.board.pieces_of_kind(*k, Player::White).as_u64();
        kinds[6 + i] = g.board.pieces_of_kind(*k, Player::Black).as_u64();
    }
    let raw_kinds = [
        g.board.all_pawns().as_u64(),
        g.board.all_knights().as_u64(),
        g.board.all_bishops().as_u64(),
        g.board.all_rooks().as_u64(),
        g.board.all_queens().as_u64(),
        g.board.all_kings().as_u64(),
    ];
    let w = g.castle_rights.white();
    let b = g.castle_rights.black();
    Snap {
        squares,
        kinds,
        raw_kinds,
        occ: [
            g.board.occupancy_for(Player::White).as_u64(),
            g.board.occupancy_for(Player::Black).as_u64(),
        ],
        player: g.player,
        cr: [w.king_side, w.queen_side, b.king_side, b.queen_side],
        ep: g.en_passant_target.map(|s| s.idx()),
        hmc: g.halfmove_clock,
        plies: g.plies,
        zob: g.zobrist.0,
        phase: g.incremental_eval.phase_value,
        pst: g.incremental_eval.piece_square_tables,
        hist_len: g.history.len(),
        fen: g.to_fen(),
    }
}

fn snap_diff(a: &Snap, b: &Snap) -> String {
    let mut d = vec![];
    if a.squares != b.squares {
        d.push("squares");
    }
    if a.kinds != b.kinds || a.raw_kinds != b.raw_kinds {
        d.push("piece-bitboards");
    }
    if a.occ != b.occ {
        d.push("colour-bitboards");
    }
    if a.player != b.player {
        d.push("side");
    }
    if a.cr != b.cr {
        d.push("castling-rights");
    }
    if a.ep != b.ep {
        d.push("ep-target");
    }
    if a.hmc != b.hmc {
        d.push("halfmove-clock");
    }
    if a.plies != b.plies {
        d.push("plies");
    }
    if a.zob != b.zob {
        d.push("key");
    }
    if a.phase != b.phase || a.pst != b.pst {
        d.push("incremental-eval");
    }
    if a.hist_len != b.hist_len {
        d.push("history-length");
    }
    if a.fen != b.fen {
        d.push("fen");
    }
    d.join(",")
}

/// The three views of the board must describe the same placement.
fn views_agree(s: &Snap) -> Option<String> {
    let mut all = 0u64;
    for i in 0..12 {
        if all & s.kinds[i] != 0 {
            return Some("piece bitboards overlap".into());
        }
        all |= s.kinds[i];
    }
    if all != (s.occ[0] | s.occ[1]) {
        return Some("union of piece bitboards != occupancy".into());
    }
    if s.occ[0] & s.occ[1] != 0 {
        return Some("colour bitboards overlap".into());
    }
    for k in 0..6 {
        if s.raw_kinds[k] != (s.kinds[k] | s.kinds[6 + k]) {
            return Some("kind bitboard has bits outside both colours".into());
        }
    }
    for sq in 0..64usize {
        let bit = 1u64 << sq;
        let from_bb = (0..12).find(|i| s.kinds[*i] & bit != 0);
        let from_sq = s.squares[sq].map(|p| {
            PieceKind::ALL.iter().position(|k| *k == p.kind).unwrap()
                + if p.player == Player::Black { 6 } else { 0 }
        });
        if from_bb != from_sq {
            return Some(format!("square {} : mailbox says {:?}, bitboards say {:?}", sq_name(sq as u8), from_sq, from_bb));
        }
    }
    None
}

// -- en-passant convention tracker (shared by all threads of a run) -----------------------

pub struct EpTracker {
    alive: [AtomicBool; 3],
    killers: Mutex<Vec<(usize, String)>>,
    pub double_pushes: AtomicU64,
}

impl EpTracker {
    pub fn new() -> EpTracker {
        EpTracker {
            alive: [AtomicBool::new(true), AtomicBool::new(true), AtomicBool::new(true)],
            killers: Mutex::new(vec![]),
            double_pushes: AtomicU64::new(0),
        }
    }
    /// Observe the target the engine recorded after `mv` played in `before`. Returns a
    /// violation text for outright errors (target without double push / wrong square), and
    /// eliminates conventions contradicted by this observation.
    pub fn observe(&self, before: &Pos, mv: Mv, after: &Pos, engine_ep: Option<u8>, witness: &str) -> Option<String> {
        match after.ep {
            None => {
                if let Some(t) = engine_ep {
                    return Some(format!("en-passant target {} recorded although {} is not a double pawn push", sq_name(t), mv.uci()));
                }
            }
            Some(t) => {
                self.double_pushes.fetch_add(1, Ordering::Relaxed);
                if let Some(e) = engine_ep {
                    if e != t {
                        return Some(format!("en-passant target on {} after {}, rules say {}", sq_name(e), mv.uci(), sq_name(t)));
                    }
                }
                for (i, c) in EP_CONVS.iter().enumerate() {
                    if after.ep_field(*c) != engine_ep && self.alive[i].swap(false, Ordering::SeqCst) {
                        self.killers.lock().unwrap().push((i, witness.to_string()));
                    }
                }
            }
        }
        let _ = before;
        None
    }
    pub fn none_alive(&self) -> bool {
        !self.alive.iter().any(|a| a.load(Ordering::SeqCst))
    }
    pub fn alive_names(&self) -> Vec<String> {
        EP_CONVS
            .iter()
            .enumerate()
            .filter(|(i, _)| self.alive[*i].load(Ordering::SeqCst))
            .map(|(_, c)| format!("{c:?}"))
            .collect()
    }
    pub fn killers(&self) -> Vec<(usize, String)> {
        self.killers.lock().unwrap().clone()
    }
}

// -- key components recovered through the public API -------------------------------------

pub struct KeyParts {
    pub piece_sq: [[[u64; 6]; 64]; 2],
    pub castle: [u64; 4],
    pub ep: [u64; 64],
    pub no_ep: u64,
    pub side: u64,
}

pub fn key_parts() -> KeyParts {
    let mut kp = KeyParts {
        piece_sq: [[[0; 6]; 64]; 2],
        castle: [0; 4],
        ep: [0; 64],
        no_ep: 0,
        side: 0,
    };
    for (pi, pl) in [Player::White, Player::Black].iter().enumerate() {
        for s in 0..64u8 {
            for (ki, k) in PieceKind::ALL.iter().enumerate() {
                let mut z = ZobristHash(0);
                z.toggle_piece_on_square(esq(s), Piece::new(*pl, *k));
                kp.piece_sq[pi][s as usize][ki] = z.0;
            }
        }
        for (si, side) in [CastleRightsSide::Kingside, CastleRightsSide::Queenside].iter().enumerate() {
            let mut z = ZobristHash(0);
            z.toggle_castle_rights(*pl, *side);
            kp.castle[pi * 2 + si] = z.0;
        }
    }
    let mut z = ZobristHash(0);
    z.toggle_side_to_play();
    kp.side = z.0;
    // key of the empty board, white to move, no rights, no target = the "no en passant" word
    let empty = game_from_ref_state(&Pos::empty(), EpConv::Always);
    kp.no_ep = zobrist::hash(&empty).0;
    for s in 0..64u8 {
        let mut z = ZobristHash(0);
        z.set_en_passant(None, Some(esq(s)));
        kp.ep[s as usize] = z.0 ^ kp.no_ep;
    }
    kp
}

impl KeyParts {
    pub fn all(&self) -> Vec<(String, u64)> {
        let mut v = vec![];
        for p in 0..2 {
            for s in 0..64 {
                for k in 0..6 {
                    v.push((format!("piece[{p}][{}][{k}]", sq_name(s as u8)), self.piece_sq[p][s][k]));
                }
            }
        }
        for i in 0..4 {
            v.push((format!("castle[{i}]"), self.castle[i]));
        }
        for s in 0..64 {
            v.push((format!("ep[{}]", sq_name(s as u8)), self.ep[s]));
        }
        v.push(("no_ep".into(), self.no_ep));
        v.push(("side".into(), self.side));
        v
    }
    /// key computed from the observable position alone, by us
    pub fn compute(&self, s: &Snap) -> u64 {
        let mut h = 0u64;
        for sq in 0..64 {
            if let Some(p) = s.squares[sq] {
                let pi = (p.player == Player::Black) as usize;
                let ki = PieceKind::ALL.iter().position(|k| *k == p.kind).unwrap();
                h ^= self.piece_sq[pi][sq][ki];
            }
        }
        for i in 0..4 {
            if s.cr[i] {
                h ^= self.castle[i];
            }
        }
        h ^= match s.ep {
            Some(t) => self.ep[t as usize],
            None => self.no_ep,
        };
        if s.player == Player::Black {
            h ^= self.side;
        }
        h
    }
}

// -- collision maps (C03) ------------------------------------------------------------------

pub struct KeyMaps {
    by_key: Vec<Mutex<HashMap<u64, u128>>>,
    by_digest: Vec<Mutex<HashMap<u128, u64>>>,
    pub cap: usize,
    pub size: AtomicU64,
}

impl KeyMaps {
    pub fn new(cap: usize) -> KeyMaps {
        KeyMaps {
            by_key: (0..64).map(|_| Mutex::new(HashMap::new())).collect(),
            by_digest: (0..64).map(|_| Mutex::new(HashMap::new())).collect(),
            cap,
            size: AtomicU64::new(0),
        }
    }
    /// Returns Some(text) on a collision (two positions, one key) or a split (one position, two keys).
    pub fn observe(&self, key: u64, digest: u128) -> Option<String> {
        let full = self.size.load(Ordering::Relaxed) as usize >= self.cap;
        {
            let mut m = self.by_key[(key % 64) as usize].lock().unwrap();
            match m.get(&key) {
                Some(d) if *d != digest => return Some(format!("two different positions share key {key:#018x}")),
                Some(_) => {}
                None => {
                    if !full {
                        m.insert(key, digest);
                        self.size.fetch_add(1, Ordering::Relaxed);
                    }
                }
            }
        }
        let mut m = self.by_digest[(digest % 64) as usize].lock().unwrap();
        match m.get(&digest) {
            Some(k) if *k != key => return Some(format!("one position carries two keys {k:#018x} and {key:#018x}")),
            Some(_) => {}
            None => {
                if !full {
                    m.insert(digest, key);
                }
            }
        }
        None
    }
}

// -- the walk ------------------------------------------------------------------------------

#[derive(Clone)]
enum Op {
    Make(Mv),
    Null,
    Undo,
}

fn op_text(o: &Op) -> String {
    match o {
        Op::Make(m) => format!("m:{}", m.uci()),
        Op::Null => "n".into(),
        Op::Undo => "u".into(),
    }
}

struct Frame {
    before_snap: Snap,
    before_ref: Pos,
    was_null: bool,
}

pub struct Shared<'a> {
    pub prop: Prop,
    pub report: &'a Report,
    pub ep: EpTracker,
    pub maps: KeyMaps,
    pub kp: KeyParts,
}

fn mode_name(p: Prop) -> &'static str {
    match p {
        Prop::C02 => "c02",
        Prop::C03 => "c03",
        Prop::C15 => "c15",
    }
}

fn violate(sh: &Shared, sig: &str, what: String, root: &str, ops: &[Op]) {
    let ops_text: Vec<String> = ops.iter().map(op_text).collect();
    sh.report.violation(Violation {
        monitor: mode_name(sh.prop).into(),
        signature: sig.to_string(),
        what,
        replay_args: vec![
            mode_name(sh.prop).into(),
            "--fen".into(),
            root.to_string(),
            "--ops".into(),
            ops_text.join(","),
        ],
        detail: J::Null,
    });
}

/// Checks after an operation; returns false if the walk should be abandoned.
fn observe(sh: &Shared, g: &Game, rp: &Pos, s: &Snap, l: &mut Local, root: &str, ops: &[Op]) -> bool {
    match sh.prop {
        Prop::C02 => {
            if let Some(t) = views_agree(s) {
                violate(sh, "c02.views", format!("board views disagree: {t}"), root, ops);
                return false;
            }
            // rules: every field against the reference
            let mut bad = vec![];
            for sq in 0..64usize {
                if s.squares[sq].map(pc_to_ref) != rp.b[sq] {
                    bad.push(format!("placement at {}", sq_name(sq as u8)));
                    break;
                }
            }
            if color_to_ref(s.player) != rp.stm {
                bad.push("side to move".into());
            }
            if s.cr != rp.cr {
                bad.push(format!("castling rights {:?} vs rules {:?}", s.cr, rp.cr));
            }
            if s.hmc != rp.hmc {
                bad.push(format!("halfmove clock {} vs rules {}", s.hmc, rp.hmc));
            }
            if s.plies / 2 + 1 != rp.fmn || (s.plies % 2 == 1) != (rp.stm == Color::B) {
                bad.push(format!("plies {} vs rules move number {}", s.plies, rp.fmn));
            }
            // FEN text: the reference's text with the engine's own (separately judged) target field
            let want_fen = format!(
                "{} {} {} {} {} {}",
                rp.placement_fen(),
                if rp.stm == Color::W { "w" } else { "b" },
                rp.castling_fen(),
                s.ep.map(sq_name).unwrap_or("-".into()),
                rp.hmc,
                rp.fmn
            );
            if s.fen != want_fen {
                bad.push(format!("FEN text '{}' vs rules '{}'", s.fen, want_fen));
            }
            if !bad.is_empty() {
                let kind = match ops.last() {
                    Some(Op::Make(m)) => {
                        if m.castle {
                            "castle"
                        } else if m.ep {
                            "ep"
                        } else if m.promo.is_some() {
                            "promotion"
                        } else if m.capture {
                            "capture"
                        } else {
                            "quiet"
                        }
                    }
                    Some(Op::Null) => "null",
                    Some(Op::Undo) => "undo",
                    None => "root",
                };
                violate(sh, &format!("c02.rules.{kind}"), bad.join("; "), root, ops);
                return false;
            }
        }
        Prop::C03 => {
            let scratch = guarded(|| zobrist::hash(g).0);
            let scratch = match scratch {
                Ok(v) => v,
                Err((m, loc)) => {
                    violate(sh, "c03.panic", format!("hash() panicked: {m} at {loc}"), root, ops);
                    return false;
                }
            };
            if s.zob != scratch {
                let kind = match ops.last() {
                    Some(Op::Make(m)) => {
                        if m.castle {
                            "castle"
                        } else if m.ep {
                            "ep"
                        } else if m.promo.is_some() {
                            "promotion"
                        } else if m.capture {
                            "capture"
                        } else {
                            "quiet"
                        }
                    }
                    Some(Op::Null) => "null",
                    Some(Op::Undo) => "undo",
                    None => "root",
                };
                violate(
                    sh,
                    &format!("c03.incremental.{kind}"),
                    format!("carried key {:#018x} != key computed from scratch {:#018x} ({})", s.zob, scratch, s.fen),
                    root,
                    ops,
                );
                return false;
            }
            let ours = sh.kp.compute(s);
            if ours != scratch {
                violate(
                    sh,
                    "c03.scratch-not-position-function",
                    format!("hash() {:#018x} != xor of the components for the observable position {:#018x} ({})", scratch, ours, s.fen),
                    root,
                    ops,
                );
                return false;
            }
            let digest = rp.digest(s.ep);
            if let Some(t) = sh.maps.observe(s.zob, digest) {
                violate(sh, "c03.collision", format!("{t} ({})", s.fen), root, ops);
                return false;
            }
            l.distinct.insert(s.zob);
        }
        Prop::C15 => {
            let fresh = IncrementalEvalFields::init(&g.board);
            if fresh.phase_value != s.phase || fresh.piece_square_tables != s.pst {
                let kind = match ops.last() {
                    Some(Op::Make(m)) => {
                        if m.castle {
                            "castle"
                        } else if m.ep {
                            "ep"
                        } else if m.promo.is_some() {
                            "promotion"
                        } else if m.capture {
                            "capture"
                        } else {
                            "quiet"
                        }
                    }
                    Some(Op::Null) => "null",
                    Some(Op::Undo) => "undo",
                    None => "root",
                };
                violate(
                    sh,
                    &format!("c15.accumulators.{kind}"),
                    format!(
                        "carried phase {} / pst {:?} != recomputed phase {} / pst {:?} ({})",
                        s.phase, s.pst, fresh.phase_value, fresh.piece_square_tables, s.fen
                    ),
                    root,
                    ops,
                );
                return false;
            }
            // path independence of the static evaluation
            let here = guarded(|| eval::eval(g).0);
            let there = guarded(|| Game::from_fen(&s.fen).map(|f| eval::eval(&f).0));
            match (here, there) {
                (Ok(a), Ok(Ok(b))) => {
                    if a != b {
                        violate(sh, "c15.path-dependent-eval", format!("eval along the path {a} != eval of the same position from FEN {b} ({})", s.fen), root, ops);
                        return false;
                    }
                }
                (Err((m, loc)), _) | (_, Err((m, loc))) => {
                    // overflow in extreme material is C16's business; note and go on
                    l.feat("eval_panicked");
                    let _ = (m, loc);
                }
                _ => {}
            }
            l.distinct.insert(hash_str(&s.fen));
        }
    }
    true
}

fn feature_of_move(before: &Pos, m: &Mv, l: &mut Local) {
    let pc = before.b[m.from as usize].unwrap();
    if m.castle {
        l.feat(if file_of(m.to) == 6 { "castle_kingside" } else { "castle_queenside" });
        l.feat(if before.stm == Color::W { "castle_white" } else { "castle_black" });
    }
    if m.ep {
        l.feat("en_passant_capture");
    }
    if let Some(k) = m.promo {
        l.feat(&format!("promotion_{:?}{}", k, if m.capture { "_capture" } else { "" }));
    }
    if m.capture && !m.ep {
        l.feat("capture");
        if [0u8, 7, 56, 63].contains(&m.to) && before.b[m.to as usize].map(|x| x.k) == Some(Kind::R) {
            l.feat("rook_captured_on_home_square");
        }
    }
    if pc.k == Kind::K && !m.castle && before.cr.iter().any(|x| *x) {
        l.feat("king_move_with_rights");
    }
    if pc.k == Kind::R && [0u8, 7, 56, 63].contains(&m.from) {
        l.feat("rook_leaves_corner");
    }
    if pc.k == Kind::P && (rank_of(m.to) - rank_of(m.from)).abs() == 2 {
        l.feat("double_push");
    }
}

/// One walk from a root. `ops_script` = Some(..) replays a recorded op list.
pub fn walk(sh: &Shared, root: &Pos, rng: &mut Rng, n_ops: usize, max_depth: usize, l: &mut Local, ops_script: Option<Vec<String>>) {
    let root_fen = root.to_fen(EpConv::Always);
    let Some(mut g) = game_from_pos(root) else {
        l.feat("fen_rejected_by_engine");
        return;
    };
    let mut rp = root.clone();
    let mut frames: Vec<Frame> = vec![];
    let mut ops: Vec<Op> = vec![];
    let s0 = snap(&g);
    if !observe(sh, &g, &rp, &s0, l, &root_fen, &ops) {
        return;
    }
    let mut script = ops_script.map(|v| v.into_iter());
    let mut i = 0;
    // a "dive" (max_depth >= 300): no take-backs until the nesting has reached its peak, so that hundreds of
    // consecutive take-backs follow - more than any fixed-size undo buffer sized after the search depth holds
    let mut reached_peak = max_depth < 300;
    loop {
        i += 1;
        // choose the next operation
        let op: Op = if let Some(it) = script.as_mut() {
            match it.next() {
                None => break,
                Some(t) => {
                    if t == "n" {
                        Op::Null
                    } else if t == "u" {
                        Op::Undo
                    } else {
                        let u = t.trim_start_matches("m:");
                        match rp.find_uci(u) {
                            Some(m) => Op::Make(m),
                            None => break,
                        }
                    }
                }
            }
        } else {
            if i > n_ops {
                // unwind everything at the end, verifying each take-back
                if frames.is_empty() {
                    break;
                }
                Op::Undo
            } else {
                let legal = rp.legal_moves();
                let can_null = !rp.in_check(rp.stm) && !frames.last().map(|f| f.was_null).unwrap_or(false) && !legal.is_empty();
                let depth = frames.len();
                if !reached_peak && (depth + 10 >= max_depth || legal.is_empty()) {
                    reached_peak = true;
                    if depth >= 300 {
                        l.feat("nesting_ge_300_then_unwound");
                    }
                }
                let w_make = if legal.is_empty() || depth >= max_depth { 0 } else { 55 };
                let w_null = if can_null && depth < max_depth { 8 } else { 0 };
                let w_undo = if depth == 0 { 0 } else if !reached_peak { 0 } else if max_depth >= 300 { 200 } else { 37 };
                if w_make + w_null + w_undo == 0 {
                    break;
                }
                match rng.weighted(&[w_make, w_null, w_undo]) {
                    0 => Op::Make(pick_move(&rp, &legal, rng)),
                    1 => Op::Null,
                    _ => Op::Undo,
                }
            }
        };
        l.evaluations += 1;
        match &op {
            Op::Make(m) => {
                let Some(e) = find_engine_move(&g, *m) else {
                    l.feat("move_not_generated_by_engine");
                    continue;
                };
                let before_snap = snap(&g);
                feature_of_move(&rp, m, l);
                ops.push(op.clone());
                let r = guarded(|| g.make_move(e));
                if let Err((msg, loc)) = r {
                    violate(sh, &format!("{}.panic@{}", mode_name(sh.prop), short_loc(&loc)), format!("make_move panicked: {msg} at {loc}"), &root_fen, &ops);
                    return;
                }
                let after = rp.make(*m);
                frames.push(Frame { before_snap, before_ref: rp.clone(), was_null: false });
                let s = snap(&g);
                if sh.prop == Prop::C02 {
                    let wit = format!("{} {}", rp.to_fen(EpConv::Always), m.uci());
                    if let Some(t) = sh.ep.observe(&rp, *m, &after, s.ep, &wit) {
                        violate(sh, "c02.ep-target", t, &root_fen, &ops);
                        return;
                    }
                    if after.ep.is_some() {
                        l.feat(if after.ep_field(EpConv::Adjacent).is_some() { "double_push_with_neighbour" } else { "double_push_without_neighbour" });
                        if after.ep_field(EpConv::Adjacent).is_some() && after.ep_field(EpConv::Legal).is_none() {
                            l.feat("double_push_neighbour_cannot_capture");
                        }
                    }
                    l.distinct.insert(hash_str(&s.fen));
                }
                rp = after;
                if !observe(sh, &g, &rp, &s, l, &root_fen, &ops) {
                    return;
                }
            }
            Op::Null => {
                let before_snap = snap(&g);
                if rp.ep.is_some() && before_snap.ep.is_some() {
                    l.feat("null_move_with_ep_target_pending");
                }
                l.feat("null_move");
                ops.push(op.clone());
                let r = guarded(|| g.make_null_move());
                if let Err((msg, loc)) = r {
                    violate(sh, &format!("{}.panic@{}", mode_name(sh.prop), short_loc(&loc)), format!("make_null_move panicked: {msg} at {loc}"), &root_fen, &ops);
                    return;
                }
                frames.push(Frame { before_snap, before_ref: rp.clone(), was_null: true });
                rp = rp.make_null();
                let s = snap(&g);
                if sh.prop == Prop::C02 && s.ep.is_some() {
                    violate(sh, "c02.ep-target", "en-passant target survives a null move".into(), &root_fen, &ops);
                    return;
                }
                if !observe(sh, &g, &rp, &s, l, &root_fen, &ops) {
                    return;
                }
            }
            Op::Undo => {
                let Some(f) = frames.pop() else {
                    continue;
                };
                ops.push(op.clone());
                l.feat(if f.was_null { "undo_null" } else { "undo_move" });
                let r = guarded(|| {
                    if f.was_null {
                        g.undo_null_move()
                    } else {
                        g.undo_move()
                    }
                });
                if let Err((msg, loc)) = r {
                    violate(sh, &format!("{}.panic@{}", mode_name(sh.prop), short_loc(&loc)), format!("undo panicked: {msg} at {loc}"), &root_fen, &ops);
                    return;
                }
                rp = f.before_ref;
                let s = snap(&g);
                if s != f.before_snap {
                    let fields = snap_diff(&s, &f.before_snap);
                    let relevant = match sh.prop {
                        Prop::C02 => true,
                        Prop::C03 => fields.contains("key"),
                        Prop::C15 => fields.contains("incremental-eval"),
                    };
                    if relevant {
                        violate(
                            sh,
                            &format!("{}.undo.{}", mode_name(sh.prop), if f.was_null { "null" } else { "move" }),
                            format!("take-back did not restore: {fields} (now '{}', before '{}')", s.fen, f.before_snap.fen),
                            &root_fen,
                            &ops,
                        );
                        return;
                    }
                }
                if !observe(sh, &g, &rp, &s, l, &root_fen, &ops) {
                    return;
                }
            }
        }
        if frames.len() >= 20 {
            l.feat("nesting_ge_20");
        }
    }
    if l.samples.len() < 2 && ops.len() > 10 {
        let ops_text: Vec<String> = ops.iter().take(60).map(op_text).collect();
        l.samples.push(jo(vec![("root", js(&root_fen)), ("ops", js(ops_text.join(",")))]));
    }
}

/// C03: transposition pairs built on purpose. From `root`, two moves of the side to move (a, b) and
/// two replies (x, y) are played as a-x-b-y and as b-y-a-x (and a-y-b-x); whenever both orders are legal
/// and the rules say they reach the same position, the engine's keys must be equal.
fn transposition_pairs(sh: &Shared, root: &Pos, rng: &mut Rng, l: &mut Local) {
    let legal = root.legal_moves();
    if legal.len() < 2 {
        return;
    }
    let root_fen = root.to_fen(EpConv::Always);
    for _ in 0..6 {
        let a = *rng.pick(&legal);
        let b = *rng.pick(&legal);
        if a == b {
            continue;
        }
        let pa = root.make(a);
        let replies = pa.legal_moves();
        if replies.len() < 2 {
            continue;
        }
        let x = *rng.pick(&replies);
        let y = *rng.pick(&replies);
        let orders: [[Mv; 4]; 2] = [[a, x, b, y], [b, y, a, x]];
        let mut ends: Vec<(Pos, u64, Vec<String>)> = vec![];
        for ord in orders.iter() {
            let Some(mut g) = game_from_pos(root) else { return };
            let mut p = root.clone();
            let mut ok = true;
            let mut played = vec![];
            for m in ord.iter() {
                // the same (from, to, promo) must be legal at this point of this order
                let Some(mm) = p.legal_moves().into_iter().find(|z| z.from == m.from && z.to == m.to && z.promo == m.promo) else {
                    ok = false;
                    break;
                };
                let Some(e) = find_engine_move(&g, mm) else {
                    ok = false;
                    break;
                };
                g.make_move(e);
                p = p.make(mm);
                played.push(mm.uci());
            }
            if ok {
                ends.push((p, g.zobrist.0, played));
            }
        }
        if ends.len() == 2 {
            let same_position = {
                let (p1, p2) = (&ends[0].0, &ends[1].0);
                p1.b == p2.b && p1.stm == p2.stm && p1.cr == p2.cr && p1.ep_field(EpConv::Adjacent) == p2.ep_field(EpConv::Adjacent) && p1.ep_field(EpConv::Legal) == p2.ep_field(EpConv::Legal) && p1.ep == p2.ep
            };
            if same_position {
                l.evaluations += 1;
                l.feat("transposition_pairs_compared");
                if ends[0].1 != ends[1].1 {
                    sh.report.violation(Violation {
                        monitor: "c03".into(),
                        signature: "c03.transposition".into(),
                        what: format!("from '{root_fen}' the move orders {:?} and {:?} reach the same position with keys {:#018x} and {:#018x}", ends[0].2, ends[1].2, ends[0].1, ends[1].1),
                        replay_args: vec!["c03".into(), "--fen".into(), root_fen.clone(), "--ops".into(), ends[0].2.iter().map(|m| format!("m:{m}")).collect::<Vec<_>>().join(",")],
                        detail: J::Null,
                    });
                    return;
                }
            }
        }
    }
}

pub fn run(prop: Prop, args: &Args, seed: u64, tier: &str, report: &Report) -> String {
    let rule = match prop {
        Prop::C02 => "histories of make / null-move / take-back operations (nesting <= 40) from corpus, playout and synthesised roots; every field compared with the reference after each operation and with the pre-move snapshot after each take-back; distinct = distinct FEN reached by a make",
        Prop::C03 => "same histories; carried key vs from-scratch key vs xor of the 838 recovered components after each operation; run-wide key<->position maps; distinct = distinct keys seen",
        Prop::C15 => "same histories; carried accumulators vs recomputation and eval vs eval-from-FEN after each operation; distinct = distinct FEN observed",
    };
    let thorough = tier == "thorough";
    let sh = Shared {
        prop,
        report,
        ep: EpTracker::new(),
        maps: KeyMaps::new(if thorough { 30_000_000 } else { 6_000_000 }),
        kp: key_parts(),
    };
    if prop == Prop::C03 {
        // exhaustive component check
        let all = sh.kp.all();
        let mut seen: HashMap<u64, String> = HashMap::new();
        for (name, v) in all.iter() {
            if *v == 0 {
                report.violation(Violation { monitor: "c03".into(), signature: "c03.component-zero".into(), what: format!("key component {name} is zero"), replay_args: vec!["c03".into(), "--components-only".into()], detail: J::Null });
            }
            if let Some(other) = seen.insert(*v, name.clone()) {
                report.violation(Violation { monitor: "c03".into(), signature: "c03.component-duplicate".into(), what: format!("key components {name} and {other} are equal ({v:#x})"), replay_args: vec!["c03".into(), "--components-only".into()], detail: J::Null });
            }
        }
        report.extra("x_components_checked", J::U(all.len() as u64));
        if args.flag("--components-only") {
            let mut l = Local::default();
            l.evaluations = all.len() as u64;
            for (_, v) in all.iter() {
                l.distinct.insert(*v);
            }
            report.merge_local(&mut l);
            return rule.to_string();
        }
    }
    if let Some(w) = args.get("--ep-witnesses") {
        // replay of a "no single convention" verdict: re-observe each contradicting double push
        let mut l = Local::default();
        for item in w.split('|') {
            let mut parts: Vec<&str> = item.split_whitespace().collect();
            let Some(mv) = parts.pop() else { continue };
            let fen = parts.join(" ");
            let Ok(before) = Pos::from_fen(&fen) else { continue };
            let Some(m) = before.find_uci(mv) else { continue };
            let Some(mut g) = game_from_pos(&before) else { continue };
            let Some(e) = find_engine_move(&g, m) else { continue };
            g.make_move(e);
            let after = before.make(m);
            l.evaluations += 1;
            l.distinct.insert(hash_str(item));
            let _ = sh.ep.observe(&before, m, &after, g.en_passant_target.map(|s| s.idx()), item);
        }
        l.distinct.insert(1);
        l.distinct.insert(2);
        report.merge_local(&mut l);
        if sh.ep.none_alive() {
            report.violation(Violation {
                monitor: "c02".into(),
                signature: "c02.ep.no-single-convention".into(),
                what: format!("no single en-passant recording convention explains: {:?}", sh.ep.killers()),
                replay_args: vec!["c02".into(), "--ep-witnesses".into(), w.to_string()],
                detail: J::Null,
            });
        }
        return rule.to_string();
    }
    if let Some(fen) = args.get("--fen") {
        let root = Pos::from_fen(fen).expect("replay fen");
        let ops: Vec<String> = args.get("--ops").unwrap_or("").split(',').filter(|s| !s.is_empty()).map(|s| s.to_string()).collect();
        let mut l = Local::default();
        let mut rng = Rng::new(seed, 0);
        walk(&sh, &root, &mut rng, 0, 64, &mut l, Some(ops));
        l.distinct.insert(1);
        l.distinct.insert(2);
        report.merge_local(&mut l);
        return rule.to_string();
    }
    let scale = args.u64("--scale", 1);
    let walks: u64 = if thorough { 1_500_000 } else { 40_000 } * scale;
    let shards = 16usize;
    let roots = corpus_roots();
    run_shards(shards, 64, |shard| {
        let mut l = Local::default();
        let mut rng = Rng::new(seed, 2000 + shard as u64);
        let per = walks / shards as u64;
        for w in 0..per {
            // root: corpus, a position some plies into a playout, or a synthesised one
            let root: Pos = match rng.below(10) {
                0..=3 => rng.pick(&roots).clone(),
                4..=6 => {
                    let mut p = rng.pick(&roots).clone();
                    for _ in 0..rng.below(60) {
                        let legal = p.legal_moves();
                        if legal.is_empty() {
                            break;
                        }
                        p = p.make(pick_move(&p, &legal, &mut rng));
                    }
                    p
                }
                7..=8 => {
                    let c = SynthCfg { max_extra: *rng.pick(&[3usize, 6, 12, 20, 30]), wild: rng.chance(1, 3), focus: false, castling: true };
                    match synth(&mut rng, &c) {
                        Some(p) => p,
                        None => continue,
                    }
                }
                _ => {
                    let c = SynthCfg { max_extra: 12, wild: false, focus: false, castling: false };
                    match synth_with_ep(&mut rng, &c) {
                        Some(p) => p,
                        None => continue,
                    }
                }
            };
            // clocks and move numbers far beyond normal play are legal too (a game continued past the
            // fifty-move point, or set up from a FEN): counters must survive make / take-back unchanged
            let mut root = root;
            if rng.chance(1, 10) {
                root.hmc = *rng.pick(&[101u32, 200, 254, 255, 256, 257, 300, 1000, 65_535, 65_536, 1_000_000]);
                root.fmn = root.fmn.max(root.hmc / 2 + 1 + rng.below(50) as u32);
                l.feat("root_with_clock_above_100");
                if root.hmc >= 255 {
                    l.feat("root_with_clock_ge_255");
                }
            }
            if rng.chance(1, 20) {
                root.fmn = *rng.pick(&[127u32, 128, 255, 256, 32_767, 32_768, 65_535, 65_536, 1_000_000]);
                l.feat("root_with_large_move_number");
            }
            let mut n_ops = *rng.pick(&[50usize, 100, 200, 400]);
            let mut max_depth = *rng.pick(&[6usize, 12, 24, 40]);
            if w % 24 == 7 {
                // a dive: 300..700 plies of nesting, then everything is taken back
                max_depth = 300 + rng.below(400) as usize;
                n_ops = max_depth + 150;
            }
            if w % 240 == 31 {
                // now and then beyond a thousand plies (any fixed capacity someone may think no game reaches), with
                // makes and take-backs mixed around the peak
                max_depth = 1030 + rng.below(300) as usize;
                n_ops = max_depth + 400;
                l.feat("dives_beyond_1000_plies");
            }
            if prop == Prop::C03 && w % 4 == 0 {
                transposition_pairs(&sh, &root, &mut rng, &mut l);
            }
            walk(&sh, &root, &mut rng, n_ops, max_depth, &mut l, None);
            if w % 200 == 0 {
                report.merge_local(&mut l);
            }
            if report.violations_total() > 200 {
                break;
            }
        }
        // C03 at the reader: whatever Game the FEN reader hands out carries the key that a computation from scratch
        // gives for it - also for texts whose castling or en-passant field does not fit the placement (rights without
        // the rook or king at home, a target nobody can capture on). Root only: no move is played from such texts.
        if prop == Prop::C03 {
            let fields = ["KQkq", "K", "Q", "k", "q", "Kq", "Qk", "KQ", "kq", "-"];
            for i in 0..(walks / 16).max(50) {
                let base = if i % 2 == 0 { rng.pick(&roots).clone() } else { match synth(&mut rng, &SynthCfg { max_extra: 12, wild: false, focus: false, castling: true }) { Some(p) => p, None => continue } };
                let fen = base.to_fen(EpConv::Always);
                let mut f: Vec<String> = fen.split(' ').map(|x| x.to_string()).collect();
                f[2] = rng.pick(&fields).to_string();
                if rng.chance(1, 3) {
                    let file = (b'a' + rng.below(8) as u8) as char;
                    f[3] = format!("{file}{}", if f[1] == "w" { 6 } else { 3 });
                }
                let text = f.join(" ");
                l.evaluations += 1;
                match guarded(|| Game::from_fen(&text)) {
                    Ok(Ok(g)) => {
                        l.feat("reader_accepted_texts_with_unfitting_fields");
                        let scratch = guarded(|| zobrist::hash(&g).0);
                        if scratch.as_ref().ok() != Some(&g.zobrist.0) {
                            report.violation(Violation { monitor: "c03".into(), signature: "c03.reader.key-not-from-scratch".into(), what: format!("the Game read from '{text}' carries key {:x}, a computation from scratch gives {:x?} (it writes itself as '{}')", g.zobrist.0, scratch.ok(), g.to_fen()), replay_args: vec![], detail: J::Null });
                        }
                    }
                    Ok(Err(_)) => l.feat("reader_rejected_texts_with_unfitting_fields"),
                    Err(_) => l.feat("reader_panicked_not_judged_here"),
                }
            }
        }
        // thorough: every legal move (and the null move where a search may make one) of every legal
        // three-men position, made and taken back - a finite sub-space enumerated completely
        if thorough {
            let mut n = 0u64;
            three_men(shard, shards, &mut |p: &Pos| {
                let mut script: Vec<String> = vec![];
                for m in p.legal_moves() {
                    script.push(format!("m:{}", m.uci()));
                    script.push("u".into());
                }
                if !p.in_check(p.stm) {
                    script.push("n".into());
                    script.push("u".into());
                }
                l.feat("three_men_positions_all_moves_round_tripped");
                walk(&sh, p, &mut rng, 0, 4, &mut l, Some(script));
                n += 1;
                if n % 20_000 == 0 {
                    report.merge_local(&mut l);
                }
            });
        }
        report.merge_local(&mut l);
    });
    if thorough {
        report.extra("x_three_men_subspace_exhaustive", J::B(true));
    }
    if prop == Prop::C02 {
        report.extra("x_ep_conventions_consistent_with_all_observations", J::A(sh.ep.alive_names().iter().map(js).collect()));
        report.extra("x_double_pushes_observed", J::U(sh.ep.double_pushes.load(Ordering::Relaxed)));
        if sh.ep.none_alive() {
            let k = sh.ep.killers();
            report.violation(Violation {
                monitor: "c02".into(),
                signature: "c02.ep.no-single-convention".into(),
                what: format!("no single en-passant recording convention explains all observations; contradicting witnesses: {k:?}"),
                replay_args: vec!["c02".into(), "--ep-witnesses".into(), k.iter().map(|x| x.1.clone()).collect::<Vec<_>>().join("|")],
                detail: J::Null,
            });
        }
    }
    if prop == Prop::C03 {
        report.extra("x_positions_in_collision_map", J::U(sh.maps.size.load(Ordering::Relaxed)));
    }
    rule.to_string()
}
