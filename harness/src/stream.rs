//! Position streams: the workloads shared by the position-level monitors.
//!
//! Every position is presented as the pair (live engine `Game`, reference `Pos`) together
//! with a `Trail` that says how it was reached (root FEN + moves), so a violation can be
//! replayed exactly.

#![allow(dead_code)]

use crate::bridge::*;
use crate::chess::game::Game;
use crate::gen::*;
use crate::refchess::*;
use crate::util::*;

#[derive(Clone, Debug)]
pub struct Trail {
    pub root_fen: String,
    pub moves: Vec<String>,
    pub origin: &'static str,
}

impl Trail {
    pub fn replay_args(&self, mode: &str) -> Vec<String> {
        let mut v = vec![
            mode.to_string(),
            "--fen".to_string(),
            self.root_fen.clone(),
        ];
        if !self.moves.is_empty() {
            v.push("--moves".to_string());
            v.push(self.moves.join(" "));
        }
        v
    }
    pub fn to_json(&self) -> J {
        jo(vec![
            ("origin", js(self.origin)),
            ("root_fen", js(&self.root_fen)),
            ("moves", js(self.moves.join(" "))),
        ])
    }
}

/// Which convention the engine's FEN reader should be fed: the raw target is always a
/// faithful description for move generation, so roots are handed over with `Always`.
/// Legal positions (per refchess) whose FEN the engine's reader refused or choked on: C06 turns these into violations.
pub fn note_rejected(fen: &str, l: &mut Local) {
    if l.samples.len() < 40 {
        l.samples.push(js(format!("rejected-by-reader:{fen}")));
    }
}

pub fn game_from_pos(p: &Pos) -> Option<Game> {
    Game::from_fen(&p.to_fen(EpConv::Always)).ok()
}

/// Rebuild (Game, Pos) from a replay description.
pub fn rebuild(root_fen: &str, moves: &str) -> Result<(Game, Pos), String> {
    let mut p = Pos::from_fen(root_fen)?;
    let mut g = Game::from_fen(root_fen)?;
    for t in moves.split_whitespace() {
        let m = p
            .find_uci(t)
            .ok_or_else(|| format!("replay: {t} is not legal for the reference"))?;
        let e = find_engine_move(&g, m)
            .ok_or_else(|| format!("replay: engine does not generate {t}"))?;
        g.make_move(e);
        p = p.make(m);
    }
    Ok((g, p))
}

pub struct StreamCfg {
    pub playouts: u64,
    pub playout_len: usize,
    pub synth: u64,
    pub synth_ep: u64,
    pub wild: bool,
    pub focus: bool,
    pub dfs_depth: u32,
    /// also present every legal three-men position (exhaustive sub-space)
    pub three_men: bool,
}

/// Drive `f` over the shard's share of the stream. `f` returns false to stop a playout
/// (e.g. after a violation at that position).
pub fn drive<F>(seed: u64, shard: usize, shards: usize, cfg: &StreamCfg, l: &mut Local, mut f: F)
where
    F: FnMut(&Game, &Pos, &Trail, &mut Local) -> bool,
{
    let roots = corpus_roots();
    let mut rng = Rng::new(seed, 1000 + shard as u64);

    // (1) DFS over every root to a fixed depth. Work is dealt by (root, first move) so that the shards
    // are balanced; the root position itself goes with its first move.
    if cfg.dfs_depth > 0 {
        let mut task = 0usize;
        for root in roots.iter() {
            let first_moves = root.legal_moves();
            let mut mine: Vec<usize> = vec![];
            for i in 0..first_moves.len().max(1) {
                if task % shards == shard {
                    mine.push(i);
                }
                task += 1;
            }
            if mine.is_empty() {
                continue;
            }
            let Some(mut g) = game_from_pos(root) else {
                l.feat("fen_rejected_by_engine");
                note_rejected(&root.to_fen(EpConv::Always), l);
                continue;
            };
            let mut trail = Trail {
                root_fen: root.to_fen(EpConv::Always),
                moves: vec![],
                origin: "dfs",
            };
            if mine.contains(&0) {
                if !f(&g, root, &trail, l) {
                    continue;
                }
            }
            for i in mine {
                let Some(m) = first_moves.get(i) else { continue };
                let Some(e) = find_engine_move(&g, *m) else { continue };
                g.make_move(e);
                trail.moves.push(m.uci());
                let n = root.make(*m);
                dfs(&mut g, &n, cfg.dfs_depth - 1, &mut trail, l, &mut f);
                trail.moves.pop();
                g.undo_move();
            }
        }
    }

    // (1b) the complete three-men sub-space
    if cfg.three_men {
        three_men(shard, shards, &mut |p: &Pos| {
            present(p, "three-men", l, &mut f);
        });
    }

    // (2) biased random playouts from corpus roots
    let per = cfg.playouts / shards as u64 + 1;
    for _ in 0..per {
        if cfg.playouts == 0 {
            break;
        }
        let root = rng.pick(&roots).clone();
        let Some(mut g) = game_from_pos(&root) else {
            l.feat("fen_rejected_by_engine");
            note_rejected(&root.to_fen(EpConv::Always), l);
            continue;
        };
        let mut p = root.clone();
        let mut trail = Trail {
            root_fen: root.to_fen(EpConv::Always),
            moves: vec![],
            origin: "playout",
        };
        for _ in 0..cfg.playout_len {
            if !f(&g, &p, &trail, l) {
                break;
            }
            let legal = p.legal_moves();
            if legal.is_empty() || p.hmc >= 150 {
                break;
            }
            let m = pick_move(&p, &legal, &mut rng);
            let Some(e) = find_engine_move(&g, m) else {
                break;
            };
            g.make_move(e);
            p = p.make(m);
            trail.moves.push(m.uci());
        }
    }

    // (3) synthesised legal positions (from FEN)
    let scfg = SynthCfg {
        max_extra: 30,
        wild: cfg.wild,
        focus: cfg.focus,
        castling: true,
    };
    let per = cfg.synth / shards as u64 + 1;
    let mut made = 0;
    let mut tries = 0u64;
    while cfg.synth > 0 && made < per && tries < per * 50 {
        tries += 1;
        let mut c = SynthCfg {
            max_extra: *rng.pick(&[2usize, 4, 6, 10, 16, 24, 30]),
            ..scfg
        };
        c.wild = cfg.wild && rng.chance(1, 2);
        let Some(p) = synth(&mut rng, &c) else {
            continue;
        };
        made += 1;
        present(&p, "synth", l, &mut f);
    }
    let per = cfg.synth_ep / shards as u64 + 1;
    let mut made = 0;
    let mut tries = 0u64;
    while cfg.synth_ep > 0 && made < per && tries < per * 200 {
        tries += 1;
        let c = SynthCfg {
            max_extra: *rng.pick(&[4usize, 8, 12, 20]),
            wild: false,
            focus: false,
            castling: false,
        };
        let Some(p) = synth_with_ep(&mut rng, &c) else {
            continue;
        };
        made += 1;
        present(&p, "synth-ep", l, &mut f);
    }
}

pub fn present<F>(p: &Pos, origin: &'static str, l: &mut Local, f: &mut F)
where
    F: FnMut(&Game, &Pos, &Trail, &mut Local) -> bool,
{
    let fen = p.to_fen(EpConv::Always);
    let trail = Trail {
        root_fen: fen.clone(),
        moves: vec![],
        origin,
    };
    match guarded(|| Game::from_fen(&fen)) {
        Ok(Ok(g)) => {
            f(&g, p, &trail, l);
        }
        _ => {
            // the reader's behaviour on legal FENs is C06's business; count it here and keep a few for C06 to judge
            l.feat("fen_rejected_by_engine");
            note_rejected(&fen, l);
        }
    }
}

fn dfs<F>(g: &mut Game, p: &Pos, depth: u32, trail: &mut Trail, l: &mut Local, f: &mut F)
where
    F: FnMut(&Game, &Pos, &Trail, &mut Local) -> bool,
{
    if !f(g, p, trail, l) {
        return;
    }
    if depth == 0 {
        return;
    }
    for m in p.legal_moves() {
        let Some(e) = find_engine_move(g, m) else {
            continue;
        };
        g.make_move(e);
        trail.moves.push(m.uci());
        let n = p.make(m);
        dfs(g, &n, depth - 1, trail, l, f);
        trail.moves.pop();
        g.undo_move();
    }
}
