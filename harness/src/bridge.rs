//! Conversions between the engine's types and the reference model's.

#![allow(dead_code)]

use crate::chess::board::Board;
use crate::chess::game::{CastleRights, Game};
use crate::chess::moves::Move;
use crate::chess::piece::{Piece, PieceKind, PromotionPieceKind};
use crate::chess::player::{ByPlayer, Player};
use crate::chess::square::Square;
use crate::refchess::{Color, EpConv, Kind, Mv, Pc, Pos, Sq};

pub fn kind_to_ref(k: PieceKind) -> Kind {
    match k {
        PieceKind::Pawn => Kind::P,
        PieceKind::Knight => Kind::N,
        PieceKind::Bishop => Kind::B,
        PieceKind::Rook => Kind::R,
        PieceKind::Queen => Kind::Q,
        PieceKind::King => Kind::K,
    }
}

pub fn kind_from_ref(k: Kind) -> PieceKind {
    match k {
        Kind::P => PieceKind::Pawn,
        Kind::N => PieceKind::Knight,
        Kind::B => PieceKind::Bishop,
        Kind::R => PieceKind::Rook,
        Kind::Q => PieceKind::Queen,
        Kind::K => PieceKind::King,
    }
}

pub fn promo_to_ref(k: PromotionPieceKind) -> Kind {
    match k {
        PromotionPieceKind::Knight => Kind::N,
        PromotionPieceKind::Bishop => Kind::B,
        PromotionPieceKind::Rook => Kind::R,
        PromotionPieceKind::Queen => Kind::Q,
    }
}

pub fn promo_from_ref(k: Kind) -> PromotionPieceKind {
    match k {
        Kind::N => PromotionPieceKind::Knight,
        Kind::B => PromotionPieceKind::Bishop,
        Kind::R => PromotionPieceKind::Rook,
        Kind::Q => PromotionPieceKind::Queen,
        _ => panic!("not a promotion piece"),
    }
}

pub fn color_to_ref(p: Player) -> Color {
    match p {
        Player::White => Color::W,
        Player::Black => Color::B,
    }
}

pub fn color_from_ref(c: Color) -> Player {
    match c {
        Color::W => Player::White,
        Color::B => Player::Black,
    }
}

pub fn pc_to_ref(p: Piece) -> Pc {
    Pc {
        c: color_to_ref(p.player),
        k: kind_to_ref(p.kind),
    }
}

pub fn pc_from_ref(p: Pc) -> Piece {
    Piece::new(color_from_ref(p.c), kind_from_ref(p.k))
}

pub fn esq(s: Sq) -> Square {
    Square::from_index(s)
}

/// The engine's view of a move, in the reference model's terms (flags as the engine labels them).
pub fn mv_to_ref(m: Move) -> Mv {
    Mv {
        from: m.src().idx(),
        to: m.dst().idx(),
        promo: m.promotion().map(promo_to_ref),
        capture: m.is_capture(),
        ep: m.is_en_passant(),
        castle: m.is_castling(),
    }
}

/// Build the engine `Move` that corresponds to a reference move (constructors only).
pub fn mv_from_ref(m: Mv) -> Move {
    let (s, d) = (esq(m.from), esq(m.to));
    if m.castle {
        Move::castles(s, d)
    } else if m.ep {
        Move::en_passant(s, d)
    } else if let Some(k) = m.promo {
        if m.capture {
            Move::capture_promotion(s, d, promo_from_ref(k))
        } else {
            Move::quiet_promotion(s, d, promo_from_ref(k))
        }
    } else if m.capture {
        Move::capture(s, d)
    } else {
        Move::quiet(s, d)
    }
}

/// Read the engine's position through its public accessors.
pub fn game_to_ref(g: &Game) -> Pos {
    let mut p = Pos::empty();
    for s in 0..64u8 {
        p.b[s as usize] = g.board.piece_at(esq(s)).map(pc_to_ref);
    }
    p.stm = color_to_ref(g.player);
    let w = g.castle_rights.white();
    let b = g.castle_rights.black();
    p.cr = [w.king_side, w.queen_side, b.king_side, b.queen_side];
    p.ep = g.en_passant_target.map(|s| s.idx());
    p.hmc = g.halfmove_clock;
    p.fmn = g.plies / 2 + 1;
    p
}

/// Build an engine `Game` from a reference position without going through FEN text.
pub fn game_from_ref_state(p: &Pos, conv: EpConv) -> Game {
    let mut arr: [Option<Piece>; 64] = [None; 64];
    for s in 0..64 {
        arr[s] = p.b[s].map(pc_from_ref);
    }
    let board: Board = arr.try_into().unwrap();
    let cr = ByPlayer::new(
        CastleRights {
            king_side: p.cr[0],
            queen_side: p.cr[1],
        },
        CastleRights {
            king_side: p.cr[2],
            queen_side: p.cr[3],
        },
    );
    Game::from_state(
        board,
        color_from_ref(p.stm),
        cr,
        p.ep_field(conv).map(esq),
        p.hmc,
        (p.fmn - 1) * 2 + u32::from(p.stm == Color::B),
    )
}

pub fn moves_of(g: &Game) -> Vec<Move> {
    g.moves().to_vec()
}

/// Find the engine's own generated move matching a reference move by (from, to, promotion).
pub fn find_engine_move(g: &Game, m: Mv) -> Option<Move> {
    g.moves().iter().copied().find(|e| {
        e.src().idx() == m.from && e.dst().idx() == m.to && e.promotion().map(promo_to_ref) == m.promo
    })
}

pub fn mv_text(m: Move) -> String {
    mv_to_ref(m).uci()
}
