//! refchess — an independent, deliberately naive implementation of the FIDE rules.
//!
//! It shares no code, table or data structure with the engine under test: an 8x8 mailbox,
//! move generation by walking offsets square by square, legality decided by making the
//! move on a copy and asking whether the own king is attacked. It is the oracle for the
//! chess-rule properties, and is itself checked against published perft counts by
//! `vharness selftest`.

#![allow(dead_code)]

pub type Sq = u8; // 0..63, a1 = 0, b1 = 1, ..., h8 = 63 (file = sq % 8, rank = sq / 8)

#[derive(Clone, Copy, PartialEq, Eq, Hash, Debug, PartialOrd, Ord)]
pub enum Color {
    W,
    B,
}

impl Color {
    pub fn other(self) -> Color {
        match self {
            Color::W => Color::B,
            Color::B => Color::W,
        }
    }
}

#[derive(Clone, Copy, PartialEq, Eq, Hash, Debug, PartialOrd, Ord)]
pub enum Kind {
    P,
    N,
    B,
    R,
    Q,
    K,
}

pub const KINDS: [Kind; 6] = [Kind::P, Kind::N, Kind::B, Kind::R, Kind::Q, Kind::K];
pub const PROMOS: [Kind; 4] = [Kind::Q, Kind::R, Kind::B, Kind::N];

#[derive(Clone, Copy, PartialEq, Eq, Hash, Debug)]
pub struct Pc {
    pub c: Color,
    pub k: Kind,
}

pub fn file_of(s: Sq) -> i32 {
    (s % 8) as i32
}
pub fn rank_of(s: Sq) -> i32 {
    (s / 8) as i32
}
pub fn sq(file: i32, rank: i32) -> Sq {
    debug_assert!((0..8).contains(&file) && (0..8).contains(&rank));
    (rank * 8 + file) as Sq
}
pub fn on_board(file: i32, rank: i32) -> bool {
    (0..8).contains(&file) && (0..8).contains(&rank)
}
pub fn sq_name(s: Sq) -> String {
    format!("{}{}", (b'a' + (s % 8)) as char, (b'1' + (s / 8)) as char)
}
pub fn parse_sq(t: &str) -> Option<Sq> {
    let b = t.as_bytes();
    if b.len() != 2 || !(b'a'..=b'h').contains(&b[0]) || !(b'1'..=b'8').contains(&b[1]) {
        return None;
    }
    Some(sq((b[0] - b'a') as i32, (b[1] - b'1') as i32))
}

/// How the en-passant target *field* is recorded. FIDE defines the capture, not the
/// bookkeeping; three conventions are in use.
#[derive(Clone, Copy, PartialEq, Eq, Debug)]
pub enum EpConv {
    /// after every double push
    Always,
    /// only if an enemy pawn stands beside the pushed pawn
    Adjacent,
    /// only if an en-passant capture is actually legal
    Legal,
}
pub const EP_CONVS: [EpConv; 3] = [EpConv::Always, EpConv::Adjacent, EpConv::Legal];

#[derive(Clone, PartialEq, Eq, Hash, Debug)]
pub struct Pos {
    pub b: [Option<Pc>; 64],
    pub stm: Color,
    /// castling rights: [white king side, white queen side, black king side, black queen side]
    pub cr: [bool; 4],
    /// raw en-passant target: set after *every* double push (convention `Always`)
    pub ep: Option<Sq>,
    pub hmc: u32,
    pub fmn: u32,
}

#[derive(Clone, Copy, PartialEq, Eq, Hash, Debug, PartialOrd, Ord)]
pub struct Mv {
    pub from: Sq,
    pub to: Sq,
    pub promo: Option<Kind>,
    pub capture: bool,
    pub ep: bool,
    pub castle: bool,
}

impl Mv {
    /// long algebraic text as UCI prescribes it
    pub fn uci(&self) -> String {
        let mut s = format!("{}{}", sq_name(self.from), sq_name(self.to));
        if let Some(k) = self.promo {
            s.push(match k {
                Kind::N => 'n',
                Kind::B => 'b',
                Kind::R => 'r',
                Kind::Q => 'q',
                _ => '?',
            });
        }
        s
    }
}

pub const START_FEN: &str = "rnbqkbnr/pppppppp/8/8/8/8/PPPPPPPP/RNBQKBNR w KQkq - 0 1";

fn pc_char(p: Pc) -> char {
    let c = match p.k {
        Kind::P => 'p',
        Kind::N => 'n',
        Kind::B => 'b',
        Kind::R => 'r',
        Kind::Q => 'q',
        Kind::K => 'k',
    };
    if p.c == Color::W {
        c.to_ascii_uppercase()
    } else {
        c
    }
}

fn char_pc(ch: char) -> Option<Pc> {
    let k = match ch.to_ascii_lowercase() {
        'p' => Kind::P,
        'n' => Kind::N,
        'b' => Kind::B,
        'r' => Kind::R,
        'q' => Kind::Q,
        'k' => Kind::K,
        _ => return None,
    };
    Some(Pc {
        c: if ch.is_ascii_uppercase() {
            Color::W
        } else {
            Color::B
        },
        k,
    })
}

const KNIGHT_D: [(i32, i32); 8] = [
    (1, 2),
    (2, 1),
    (2, -1),
    (1, -2),
    (-1, -2),
    (-2, -1),
    (-2, 1),
    (-1, 2),
];
const KING_D: [(i32, i32); 8] = [
    (1, 0),
    (1, 1),
    (0, 1),
    (-1, 1),
    (-1, 0),
    (-1, -1),
    (0, -1),
    (1, -1),
];
const ROOK_D: [(i32, i32); 4] = [(1, 0), (0, 1), (-1, 0), (0, -1)];
const BISHOP_D: [(i32, i32); 4] = [(1, 1), (-1, 1), (-1, -1), (1, -1)];

impl Pos {
    pub fn empty() -> Pos {
        Pos {
            b: [None; 64],
            stm: Color::W,
            cr: [false; 4],
            ep: None,
            hmc: 0,
            fmn: 1,
        }
    }

    pub fn start() -> Pos {
        Pos::from_fen(START_FEN).unwrap()
    }

    /// Strict reader: exactly 8 ranks of exactly 8 squares, 4 to 6 fields.
    pub fn from_fen(fen: &str) -> Result<Pos, String> {
        let f: Vec<&str> = fen.split_whitespace().collect();
        if f.len() < 4 || f.len() > 6 {
            return Err(format!("field count {}", f.len()));
        }
        let mut p = Pos::empty();
        let ranks: Vec<&str> = f[0].split('/').collect();
        if ranks.len() != 8 {
            return Err("rank count".into());
        }
        for (i, r) in ranks.iter().enumerate() {
            let rank = 7 - i as i32;
            let mut file = 0i32;
            for ch in r.chars() {
                if let Some(d) = ch.to_digit(10) {
                    if d == 0 || d > 8 {
                        return Err("digit".into());
                    }
                    file += d as i32;
                } else if let Some(pc) = char_pc(ch) {
                    if file > 7 {
                        return Err("rank too wide".into());
                    }
                    p.b[sq(file, rank) as usize] = Some(pc);
                    file += 1;
                } else {
                    return Err("piece char".into());
                }
            }
            if file != 8 {
                return Err("rank width".into());
            }
        }
        p.stm = match f[1] {
            "w" => Color::W,
            "b" => Color::B,
            _ => return Err("side".into()),
        };
        if f[2] != "-" {
            for ch in f[2].chars() {
                match ch {
                    'K' => p.cr[0] = true,
                    'Q' => p.cr[1] = true,
                    'k' => p.cr[2] = true,
                    'q' => p.cr[3] = true,
                    _ => return Err("castling".into()),
                }
            }
        }
        p.ep = if f[3] == "-" {
            None
        } else {
            Some(parse_sq(f[3]).ok_or("ep square")?)
        };
        p.hmc = if f.len() > 4 {
            f[4].parse().map_err(|_| "halfmove clock")?
        } else {
            0
        };
        p.fmn = if f.len() > 5 {
            f[5].parse().map_err(|_| "move number")?
        } else {
            1
        };
        Ok(p)
    }

    pub fn placement_fen(&self) -> String {
        let mut s = String::new();
        for rank in (0..8).rev() {
            let mut empty = 0;
            for file in 0..8 {
                match self.b[sq(file, rank) as usize] {
                    None => empty += 1,
                    Some(pc) => {
                        if empty > 0 {
                            s.push_str(&empty.to_string());
                            empty = 0;
                        }
                        s.push(pc_char(pc));
                    }
                }
            }
            if empty > 0 {
                s.push_str(&empty.to_string());
            }
            if rank > 0 {
                s.push('/');
            }
        }
        s
    }

    pub fn castling_fen(&self) -> String {
        let mut s = String::new();
        for (i, ch) in ['K', 'Q', 'k', 'q'].iter().enumerate() {
            if self.cr[i] {
                s.push(*ch);
            }
        }
        if s.is_empty() {
            s.push('-');
        }
        s
    }

    /// The en-passant target field as recorded under a convention.
    pub fn ep_field(&self, conv: EpConv) -> Option<Sq> {
        let t = self.ep?;
        match conv {
            EpConv::Always => Some(t),
            EpConv::Adjacent => {
                // the pushed pawn stands one step beyond the target, seen from the mover
                let pushed_rank = if self.stm == Color::B { 3 } else { 4 };
                let f = file_of(t);
                for df in [-1, 1] {
                    if on_board(f + df, pushed_rank) {
                        if self.b[sq(f + df, pushed_rank) as usize]
                            == Some(Pc {
                                c: self.stm,
                                k: Kind::P,
                            })
                        {
                            return Some(t);
                        }
                    }
                }
                None
            }
            EpConv::Legal => {
                if self.legal_moves().iter().any(|m| m.ep) {
                    Some(t)
                } else {
                    None
                }
            }
        }
    }

    pub fn to_fen(&self, conv: EpConv) -> String {
        format!(
            "{} {} {} {} {} {}",
            self.placement_fen(),
            if self.stm == Color::W { "w" } else { "b" },
            self.castling_fen(),
            match self.ep_field(conv) {
                Some(s) => sq_name(s),
                None => "-".to_string(),
            },
            self.hmc,
            self.fmn
        )
    }

    pub fn king_sq(&self, c: Color) -> Option<Sq> {
        (0..64u8).find(|&s| self.b[s as usize] == Some(Pc { c, k: Kind::K }))
    }

    fn path_clear(&self, from: Sq, to: Sq) -> bool {
        let (ff, fr, tf, tr) = (file_of(from), rank_of(from), file_of(to), rank_of(to));
        let df = (tf - ff).signum();
        let dr = (tr - fr).signum();
        let (mut f, mut r) = (ff + df, fr + dr);
        while (f, r) != (tf, tr) {
            if self.b[sq(f, r) as usize].is_some() {
                return false;
            }
            f += df;
            r += dr;
        }
        true
    }

    /// Does the piece standing on `from` attack square `to` (geometry + blockers)?
    pub fn piece_attacks(&self, from: Sq, to: Sq) -> bool {
        if from == to {
            return false;
        }
        let Some(pc) = self.b[from as usize] else {
            return false;
        };
        let df = file_of(to) - file_of(from);
        let dr = rank_of(to) - rank_of(from);
        match pc.k {
            Kind::P => {
                let fwd = if pc.c == Color::W { 1 } else { -1 };
                dr == fwd && df.abs() == 1
            }
            Kind::N => (df.abs() == 1 && dr.abs() == 2) || (df.abs() == 2 && dr.abs() == 1),
            Kind::K => df.abs() <= 1 && dr.abs() <= 1,
            Kind::B => df.abs() == dr.abs() && self.path_clear(from, to),
            Kind::R => (df == 0 || dr == 0) && self.path_clear(from, to),
            Kind::Q => (df == 0 || dr == 0 || df.abs() == dr.abs()) && self.path_clear(from, to),
        }
    }

    pub fn attackers_of(&self, target: Sq, by: Color) -> Vec<Sq> {
        (0..64u8)
            .filter(|&s| matches!(self.b[s as usize], Some(pc) if pc.c == by) && self.piece_attacks(s, target))
            .collect()
    }

    pub fn attacked(&self, target: Sq, by: Color) -> bool {
        (0..64u8).any(|s| {
            matches!(self.b[s as usize], Some(pc) if pc.c == by) && self.piece_attacks(s, target)
        })
    }

    pub fn in_check(&self, c: Color) -> bool {
        match self.king_sq(c) {
            Some(k) => self.attacked(k, c.other()),
            None => false,
        }
    }

    pub fn checkers(&self) -> Vec<Sq> {
        match self.king_sq(self.stm) {
            Some(k) => self.attackers_of(k, self.stm.other()),
            None => vec![],
        }
    }

    fn push_pawn_move(&self, out: &mut Vec<Mv>, from: Sq, to: Sq, capture: bool, ep: bool) {
        let last = if self.stm == Color::W { 7 } else { 0 };
        if rank_of(to) == last {
            for k in PROMOS {
                out.push(Mv {
                    from,
                    to,
                    promo: Some(k),
                    capture,
                    ep: false,
                    castle: false,
                });
            }
        } else {
            out.push(Mv {
                from,
                to,
                promo: None,
                capture,
                ep,
                castle: false,
            });
        }
    }

    pub fn pseudo_moves(&self) -> Vec<Mv> {
        let us = self.stm;
        let them = us.other();
        let mut out = Vec::with_capacity(64);
        for from in 0..64u8 {
            let Some(pc) = self.b[from as usize] else {
                continue;
            };
            if pc.c != us {
                continue;
            }
            let (f, r) = (file_of(from), rank_of(from));
            match pc.k {
                Kind::P => {
                    let fwd = if us == Color::W { 1 } else { -1 };
                    let home = if us == Color::W { 1 } else { 6 };
                    if on_board(f, r + fwd) && self.b[sq(f, r + fwd) as usize].is_none() {
                        self.push_pawn_move(&mut out, from, sq(f, r + fwd), false, false);
                        if r == home && self.b[sq(f, r + 2 * fwd) as usize].is_none() {
                            out.push(Mv {
                                from,
                                to: sq(f, r + 2 * fwd),
                                promo: None,
                                capture: false,
                                ep: false,
                                castle: false,
                            });
                        }
                    }
                    for df in [-1, 1] {
                        if !on_board(f + df, r + fwd) {
                            continue;
                        }
                        let to = sq(f + df, r + fwd);
                        match self.b[to as usize] {
                            Some(t) if t.c == them => {
                                self.push_pawn_move(&mut out, from, to, true, false)
                            }
                            None if self.ep == Some(to) => {
                                // the pawn to be removed stands beside us, on our rank
                                let victim = sq(f + df, r);
                                let ep_rank = if us == Color::W { 5 } else { 2 };
                                if rank_of(to) == ep_rank
                                    && self.b[victim as usize]
                                        == Some(Pc {
                                            c: them,
                                            k: Kind::P,
                                        })
                                {
                                    self.push_pawn_move(&mut out, from, to, true, true);
                                }
                            }
                            _ => {}
                        }
                    }
                }
                Kind::N | Kind::K => {
                    let d = if pc.k == Kind::N { &KNIGHT_D } else { &KING_D };
                    for (df, dr) in d.iter() {
                        if !on_board(f + df, r + dr) {
                            continue;
                        }
                        let to = sq(f + df, r + dr);
                        match self.b[to as usize] {
                            None => out.push(Mv {
                                from,
                                to,
                                promo: None,
                                capture: false,
                                ep: false,
                                castle: false,
                            }),
                            Some(t) if t.c == them => out.push(Mv {
                                from,
                                to,
                                promo: None,
                                capture: true,
                                ep: false,
                                castle: false,
                            }),
                            _ => {}
                        }
                    }
                }
                Kind::B | Kind::R | Kind::Q => {
                    let mut dirs: Vec<(i32, i32)> = vec![];
                    if pc.k != Kind::B {
                        dirs.extend_from_slice(&ROOK_D);
                    }
                    if pc.k != Kind::R {
                        dirs.extend_from_slice(&BISHOP_D);
                    }
                    for (df, dr) in dirs {
                        let (mut tf, mut tr) = (f + df, r + dr);
                        while on_board(tf, tr) {
                            let to = sq(tf, tr);
                            match self.b[to as usize] {
                                None => out.push(Mv {
                                    from,
                                    to,
                                    promo: None,
                                    capture: false,
                                    ep: false,
                                    castle: false,
                                }),
                                Some(t) => {
                                    if t.c == them {
                                        out.push(Mv {
                                            from,
                                            to,
                                            promo: None,
                                            capture: true,
                                            ep: false,
                                            castle: false,
                                        });
                                    }
                                    break;
                                }
                            }
                            tf += df;
                            tr += dr;
                        }
                    }
                }
            }
        }
        // castling: FIDE 3.8.2 — rights, king and rook on their original squares, all
        // squares between them empty, king not in check, does not cross or land on an
        // attacked square
        let back = if us == Color::W { 0 } else { 7 };
        let (ks, qs) = if us == Color::W { (0, 1) } else { (2, 3) };
        let king_home = sq(4, back);
        if self.b[king_home as usize] == Some(Pc { c: us, k: Kind::K }) {
            let rook = Some(Pc { c: us, k: Kind::R });
            if self.cr[ks]
                && self.b[sq(7, back) as usize] == rook
                && self.b[sq(5, back) as usize].is_none()
                && self.b[sq(6, back) as usize].is_none()
                && !self.attacked(king_home, them)
                && !self.attacked(sq(5, back), them)
                && !self.attacked(sq(6, back), them)
            {
                out.push(Mv {
                    from: king_home,
                    to: sq(6, back),
                    promo: None,
                    capture: false,
                    ep: false,
                    castle: true,
                });
            }
            if self.cr[qs]
                && self.b[sq(0, back) as usize] == rook
                && self.b[sq(1, back) as usize].is_none()
                && self.b[sq(2, back) as usize].is_none()
                && self.b[sq(3, back) as usize].is_none()
                && !self.attacked(king_home, them)
                && !self.attacked(sq(3, back), them)
                && !self.attacked(sq(2, back), them)
            {
                out.push(Mv {
                    from: king_home,
                    to: sq(2, back),
                    promo: None,
                    capture: false,
                    ep: false,
                    castle: true,
                });
            }
        }
        out
    }

    pub fn legal_moves(&self) -> Vec<Mv> {
        let us = self.stm;
        self.pseudo_moves()
            .into_iter()
            .filter(|m| {
                let n = self.make(*m);
                !n.in_check(us)
            })
            .collect()
    }

    /// Play a (pseudo-)legal move and return the resulting position.
    pub fn make(&self, m: Mv) -> Pos {
        let mut n = self.clone();
        let us = self.stm;
        let them = us.other();
        let pc = self.b[m.from as usize].expect("make: no piece on source");
        let captured = self.b[m.to as usize];
        n.b[m.from as usize] = None;
        if m.ep {
            let victim = sq(file_of(m.to), rank_of(m.from));
            n.b[victim as usize] = None;
        }
        n.b[m.to as usize] = Some(match m.promo {
            Some(k) => Pc { c: us, k },
            None => pc,
        });
        if m.castle {
            let back = rank_of(m.from);
            if file_of(m.to) == 6 {
                n.b[sq(7, back) as usize] = None;
                n.b[sq(5, back) as usize] = Some(Pc { c: us, k: Kind::R });
            } else {
                n.b[sq(0, back) as usize] = None;
                n.b[sq(3, back) as usize] = Some(Pc { c: us, k: Kind::R });
            }
        }
        // castling rights: lost when the king moves, when a rook leaves its corner, and
        // when a rook is captured on its corner
        if pc.k == Kind::K {
            if us == Color::W {
                n.cr[0] = false;
                n.cr[1] = false;
            } else {
                n.cr[2] = false;
                n.cr[3] = false;
            }
        }
        for (corner, idx) in [(sq(7, 0), 0), (sq(0, 0), 1), (sq(7, 7), 2), (sq(0, 7), 3)] {
            if m.from == corner || m.to == corner {
                n.cr[idx] = false;
            }
        }
        n.ep = if pc.k == Kind::P && (rank_of(m.to) - rank_of(m.from)).abs() == 2 {
            Some(sq(file_of(m.from), (rank_of(m.from) + rank_of(m.to)) / 2))
        } else {
            None
        };
        n.hmc = if pc.k == Kind::P || captured.is_some() || m.ep {
            0
        } else {
            self.hmc + 1
        };
        if us == Color::B {
            n.fmn = self.fmn + 1;
        }
        n.stm = them;
        n
    }

    /// A null move as a search makes it: side changes, en-passant target cleared, the move
    /// counter advances by one ply, the halfmove clock is left alone.
    pub fn make_null(&self) -> Pos {
        let mut n = self.clone();
        n.ep = None;
        if self.stm == Color::B {
            n.fmn = self.fmn + 1;
        }
        n.stm = self.stm.other();
        n
    }

    pub fn find_uci(&self, text: &str) -> Option<Mv> {
        self.legal_moves().into_iter().find(|m| m.uci() == text)
    }

    pub fn is_checkmate(&self) -> bool {
        self.in_check(self.stm) && self.legal_moves().is_empty()
    }

    pub fn count(&self, c: Color, k: Kind) -> usize {
        self.b.iter().filter(|x| **x == Some(Pc { c, k })).count()
    }

    /// "Legal position" exactly as the properties define it.
    pub fn is_legal_position(&self) -> bool {
        if self.count(Color::W, Kind::K) != 1 || self.count(Color::B, Kind::K) != 1 {
            return false;
        }
        for f in 0..8 {
            for r in [0, 7] {
                if matches!(self.b[sq(f, r) as usize], Some(pc) if pc.k == Kind::P) {
                    return false;
                }
            }
        }
        if self.in_check(self.stm.other()) {
            return false;
        }
        // kings may not stand next to each other (implied by "side not to move not in
        // check", kept explicit for clarity)
        let corners = [
            (0usize, Color::W, 7, 0),
            (1, Color::W, 0, 0),
            (2, Color::B, 7, 7),
            (3, Color::B, 0, 7),
        ];
        for (idx, c, rf, rr) in corners {
            if self.cr[idx] {
                if self.b[sq(4, rr) as usize] != Some(Pc { c, k: Kind::K })
                    || self.b[sq(rf, rr) as usize] != Some(Pc { c, k: Kind::R })
                {
                    return false;
                }
            }
        }
        if let Some(t) = self.ep {
            // the side that just moved is the other one
            let mover = self.stm.other();
            let (ep_rank, pawn_rank, from_rank) = if mover == Color::W {
                (2, 3, 1)
            } else {
                (5, 4, 6)
            };
            if rank_of(t) != ep_rank {
                return false;
            }
            let f = file_of(t);
            if self.b[sq(f, pawn_rank) as usize]
                != Some(Pc {
                    c: mover,
                    k: Kind::P,
                })
                || self.b[t as usize].is_some()
                || self.b[sq(f, from_rank) as usize].is_some()
            {
                return false;
            }
        }
        true
    }

    /// Colour mirror: ranks flipped, colours swapped, side/rights/target swapped.
    pub fn mirror(&self) -> Pos {
        let mut n = Pos::empty();
        for s in 0..64u8 {
            if let Some(pc) = self.b[s as usize] {
                n.b[mirror_sq(s) as usize] = Some(Pc {
                    c: pc.c.other(),
                    k: pc.k,
                });
            }
        }
        n.stm = self.stm.other();
        n.cr = [self.cr[2], self.cr[3], self.cr[0], self.cr[1]];
        n.ep = self.ep.map(mirror_sq);
        n.hmc = self.hmc;
        n.fmn = self.fmn;
        n
    }

    /// Standard Algebraic Notation (FIDE Appendix C), with "+" / "#" suffix.
    pub fn san(&self, m: Mv) -> String {
        let pc = self.b[m.from as usize].unwrap();
        let mut s = String::new();
        if m.castle {
            s.push_str(if file_of(m.to) == 6 { "O-O" } else { "O-O-O" });
        } else {
            if pc.k == Kind::P {
                if m.capture {
                    s.push((b'a' + m.from % 8) as char);
                }
            } else {
                s.push(pc_char(Pc {
                    c: Color::W,
                    k: pc.k,
                }));
                let others: Vec<Mv> = self
                    .legal_moves()
                    .into_iter()
                    .filter(|o| {
                        o.to == m.to
                            && o.from != m.from
                            && self.b[o.from as usize].map(|p| p.k) == Some(pc.k)
                    })
                    .collect();
                if !others.is_empty() {
                    let same_file = others.iter().any(|o| file_of(o.from) == file_of(m.from));
                    let same_rank = others.iter().any(|o| rank_of(o.from) == rank_of(m.from));
                    if !same_file {
                        s.push((b'a' + m.from % 8) as char);
                    } else if !same_rank {
                        s.push((b'1' + m.from / 8) as char);
                    } else {
                        s.push_str(&sq_name(m.from));
                    }
                }
            }
            if m.capture {
                s.push('x');
            }
            s.push_str(&sq_name(m.to));
            if let Some(k) = m.promo {
                s.push('=');
                s.push(pc_char(Pc { c: Color::W, k }));
            }
        }
        let n = self.make(m);
        if n.in_check(n.stm) {
            s.push(if n.legal_moves().is_empty() { '#' } else { '+' });
        }
        s
    }

    pub fn perft(&self, depth: u32) -> u64 {
        if depth == 0 {
            return 1;
        }
        let ms = self.legal_moves();
        if depth == 1 {
            return ms.len() as u64;
        }
        ms.iter().map(|m| self.make(*m).perft(depth - 1)).sum()
    }

    /// 128-bit digest of (placement, side, rights, given en-passant field), independent
    /// of the engine's Zobrist scheme.
    pub fn digest(&self, ep_field: Option<Sq>) -> u128 {
        let mut bytes = [0u8; 68];
        for s in 0..64 {
            bytes[s] = match self.b[s] {
                None => 0,
                Some(pc) => 1 + (pc.k as u8) + if pc.c == Color::B { 6 } else { 0 },
            };
        }
        bytes[64] = self.stm as u8;
        bytes[65] = self.cr.iter().enumerate().map(|(i, b)| (*b as u8) << i).sum();
        bytes[66] = match ep_field {
            None => 255,
            Some(s) => s,
        };
        let h = |seed: u64| -> u64 {
            let mut x = seed;
            for b in bytes.iter() {
                x ^= *b as u64;
                x = x.wrapping_mul(0x100000001b3);
                x ^= x >> 29;
                x = x.wrapping_mul(0xbf58476d1ce4e5b9);
            }
            x ^ (x >> 32)
        };
        ((h(0xcbf29ce484222325) as u128) << 64) | h(0x9e3779b97f4a7c15) as u128
    }
}

pub fn mirror_sq(s: Sq) -> Sq {
    sq(file_of(s), 7 - rank_of(s))
}

pub fn mirror_mv(m: Mv) -> Mv {
    Mv {
        from: mirror_sq(m.from),
        to: mirror_sq(m.to),
        ..m
    }
}

/// Piece values on the engine's own SEE scale (the property fixes the scale, not us).
pub fn see_value(k: Kind) -> i32 {
    match k {
        Kind::P => 100,
        Kind::N | Kind::B => 300,
        Kind::R => 500,
        Kind::Q => 900,
        Kind::K => 10000,
    }
}

/// Result of the exact swap-list computation, enumerated over every tie-breaking order
/// among equally valued attackers.
#[derive(Debug, Clone, Copy, PartialEq, Eq)]
pub enum SeeVerdict {
    /// every order gives the same answer to "gain >= 0"
    Agreed(bool),
    /// the orders disagree: the choice among equal attackers matters
    Depends,
}

/// Exact static exchange on `m.to` after `m` (non-en-passant capture), with the usual
/// swap-list rules: each side in turn captures with its least valuable attacker (x-rays are
/// revealed as pieces leave), either side may stop, a king captures only if no enemy
/// attacker remains. Returns the verdict "net gain for the mover >= 0".
pub fn see_exact(p: &Pos, m: Mv) -> SeeVerdict {
    let us = p.stm;
    let victim0 = p.b[m.to as usize].map(|x| see_value(x.k)).unwrap_or(0);
    let mut board = p.clone();
    let mover = board.b[m.from as usize].unwrap();
    board.b[m.from as usize] = None;
    let placed = match m.promo {
        Some(k) => Pc { c: us, k },
        None => mover,
    };
    board.b[m.to as usize] = Some(placed);
    let promo_gain = match m.promo {
        Some(k) => see_value(k) - see_value(Kind::P),
        None => 0,
    };
    // `out` receives, for every combination of tie-break choices, the value `side` wins back
    // on `target` under optimal stop/continue play. `unclear` is raised when the answer
    // hinges on a reading of "the king may not capture onto a defended square" that the
    // property does not fix (an enemy slider lined up *through* the capturing king).
    fn best_reply(board: &Pos, target: Sq, side: Color, out: &mut Vec<i32>, unclear: &mut bool) {
        let on_target = board.b[target as usize].unwrap();
        let atk = board.attackers_of(target, side);
        if atk.is_empty() {
            out.push(0);
            return;
        }
        let min_val = atk
            .iter()
            .map(|&s| see_value(board.b[s as usize].unwrap().k))
            .min()
            .unwrap();
        let cands: Vec<Sq> = atk
            .iter()
            .copied()
            .filter(|&s| see_value(board.b[s as usize].unwrap().k) == min_val)
            .collect();
        for c in cands {
            let pc = board.b[c as usize].unwrap();
            if pc.k == Kind::K {
                let defended_now = board.attacked(target, side.other());
                let mut nb = board.clone();
                nb.b[c as usize] = None;
                nb.b[target as usize] = Some(pc);
                let defended_after = nb.attacked(target, side.other());
                if defended_now != defended_after {
                    *unclear = true;
                }
                if defended_now || defended_after {
                    // the king may not capture onto a defended square
                    out.push(0);
                    continue;
                }
            }
            let mut nb = board.clone();
            nb.b[c as usize] = None;
            nb.b[target as usize] = Some(pc);
            let mut sub = Vec::new();
            best_reply(&nb, target, side.other(), &mut sub, unclear);
            for r in sub {
                let gain = see_value(on_target.k) - r;
                out.push(gain.max(0)); // may decline to capture
            }
        }
    }
    let mut replies = Vec::new();
    let mut unclear = false;
    best_reply(&board, m.to, us.other(), &mut replies, &mut unclear);
    if unclear {
        return SeeVerdict::Depends;
    }
    let mut results = [false, false];
    for r in replies {
        let total = victim0 + promo_gain - r;
        results[(total >= 0) as usize] = true;
    }
    match (results[0], results[1]) {
        (false, true) => SeeVerdict::Agreed(true),
        (true, false) => SeeVerdict::Agreed(false),
        _ => SeeVerdict::Depends,
    }
}
