//! Small shared pieces: deterministic RNG, a JSON writer, the per-run report, panic capture.

#![allow(dead_code)]

use std::cell::RefCell;
use std::collections::BTreeMap;
use std::collections::HashSet;
use std::sync::Mutex;

// ---------------------------------------------------------------------------------------
// SplitMix64: every case is reproducible from (seed, shard, index)

#[derive(Clone)]
pub struct Rng(pub u64);

impl Rng {
    pub fn new(seed: u64, stream: u64) -> Rng {
        let mut r = Rng(seed ^ stream.wrapping_mul(0x9e3779b97f4a7c15) ^ 0x5851f42d4c957f2d);
        r.next();
        r.next();
        r
    }
    pub fn next(&mut self) -> u64 {
        self.0 = self.0.wrapping_add(0x9e3779b97f4a7c15);
        let mut z = self.0;
        z = (z ^ (z >> 30)).wrapping_mul(0xbf58476d1ce4e5b9);
        z = (z ^ (z >> 27)).wrapping_mul(0x94d049bb133111eb);
        z ^ (z >> 31)
    }
    /// uniform in 0..n (n > 0)
    pub fn below(&mut self, n: u64) -> u64 {
        ((self.next() as u128 * n as u128) >> 64) as u64
    }
    pub fn range(&mut self, lo: i64, hi_incl: i64) -> i64 {
        lo + self.below((hi_incl - lo + 1) as u64) as i64
    }
    pub fn chance(&mut self, num: u64, den: u64) -> bool {
        self.below(den) < num
    }
    pub fn pick<'a, T>(&mut self, v: &'a [T]) -> &'a T {
        &v[self.below(v.len() as u64) as usize]
    }
    pub fn weighted(&mut self, w: &[u64]) -> usize {
        let total: u64 = w.iter().sum();
        let mut x = self.below(total.max(1));
        for (i, wi) in w.iter().enumerate() {
            if x < *wi {
                return i;
            }
            x -= wi;
        }
        w.len() - 1
    }
}

// ---------------------------------------------------------------------------------------
// JSON

#[derive(Clone, Debug)]
pub enum J {
    Null,
    B(bool),
    I(i64),
    U(u64),
    F(f64),
    S(String),
    A(Vec<J>),
    O(Vec<(String, J)>),
}

impl J {
    pub fn as_str(&self) -> Option<&str> {
        match self {
            J::S(s) => Some(s.as_str()),
            _ => None,
        }
    }
}

pub fn js<S: AsRef<str>>(s: S) -> J {
    J::S(s.as_ref().to_string())
}

pub fn jo(pairs: Vec<(&str, J)>) -> J {
    J::O(pairs.into_iter().map(|(k, v)| (k.to_string(), v)).collect())
}

impl J {
    pub fn write(&self, out: &mut String) {
        match self {
            J::Null => out.push_str("null"),
            J::B(b) => out.push_str(if *b { "true" } else { "false" }),
            J::I(i) => out.push_str(&i.to_string()),
            J::U(u) => out.push_str(&u.to_string()),
            J::F(f) => {
                if f.is_finite() {
                    out.push_str(&format!("{f}"))
                } else {
                    out.push_str("null")
                }
            }
            J::S(s) => {
                out.push('"');
                for c in s.chars() {
                    match c {
                        '"' => out.push_str("\\\""),
                        '\\' => out.push_str("\\\\"),
                        '\n' => out.push_str("\\n"),
                        '\r' => out.push_str("\\r"),
                        '\t' => out.push_str("\\t"),
                        c if (c as u32) < 0x20 => out.push_str(&format!("\\u{:04x}", c as u32)),
                        c => out.push(c),
                    }
                }
                out.push('"');
            }
            J::A(v) => {
                out.push('[');
                for (i, x) in v.iter().enumerate() {
                    if i > 0 {
                        out.push(',');
                    }
                    x.write(out);
                }
                out.push(']');
            }
            J::O(v) => {
                out.push('{');
                for (i, (k, x)) in v.iter().enumerate() {
                    if i > 0 {
                        out.push(',');
                    }
                    J::S(k.clone()).write(out);
                    out.push(':');
                    x.write(out);
                }
                out.push('}');
            }
        }
    }
    pub fn to_string(&self) -> String {
        let mut s = String::new();
        self.write(&mut s);
        s
    }
}

// ---------------------------------------------------------------------------------------
// Report: what one harness run observed. Shared by all worker threads.

#[derive(Clone, Debug)]
pub struct Violation {
    /// short monitor name, e.g. "c01.movegen"
    pub monitor: String,
    /// discriminating signature used to match known findings
    pub signature: String,
    /// human readable description
    pub what: String,
    /// argv that re-runs exactly this case: `vharness <args...>`
    pub replay_args: Vec<String>,
    /// extra details (engine output, oracle output, panic message...)
    pub detail: J,
}

#[derive(Default)]
pub struct ReportInner {
    pub evaluations: u64,
    pub distinct: HashSet<u64>,
    pub features: BTreeMap<String, u64>,
    pub samples: Vec<J>,
    pub violations: Vec<Violation>,
    pub violations_total: u64,
    pub inconclusive: Vec<J>,
    pub inconclusive_total: u64,
    pub notes: Vec<String>,
    pub extra: Vec<(String, J)>,
}

pub struct Report {
    pub inner: Mutex<ReportInner>,
    pub max_samples: usize,
    pub max_violations: usize,
}

impl Report {
    pub fn new() -> Report {
        Report {
            inner: Mutex::new(ReportInner::default()),
            max_samples: 12,
            max_violations: 40,
        }
    }
    pub fn merge_local(&self, l: &mut Local) {
        let mut g = self.inner.lock().unwrap();
        g.evaluations += l.evaluations;
        l.evaluations = 0;
        // the distinct-case set is capped (memory): beyond the cap the reported number is a lower bound
        const DISTINCT_CAP: usize = 60_000_000;
        if g.distinct.len() < DISTINCT_CAP {
            for d in l.distinct.drain() {
                g.distinct.insert(d);
            }
        } else {
            l.distinct.clear();
        }
        for (k, v) in l.features.iter_mut() {
            *g.features.entry(k.clone()).or_insert(0) += *v;
            *v = 0;
        }
        for s in l.samples.drain(..) {
            if g.samples.len() < self.max_samples {
                g.samples.push(s);
            }
        }
    }
    pub fn violation(&self, v: Violation) {
        let mut g = self.inner.lock().unwrap();
        g.violations_total += 1;
        // keep at most a few per signature so that one defect cannot crowd out another
        let same = g
            .violations
            .iter()
            .filter(|x| x.signature == v.signature)
            .count();
        if same < 3 && g.violations.len() < self.max_violations {
            g.violations.push(v);
        }
    }
    pub fn inconclusive(&self, j: J) {
        let mut g = self.inner.lock().unwrap();
        g.inconclusive_total += 1;
        if g.inconclusive.len() < 20 {
            g.inconclusive.push(j);
        }
    }
    pub fn note(&self, s: String) {
        self.inner.lock().unwrap().notes.push(s);
    }
    pub fn extra(&self, k: &str, v: J) {
        self.inner.lock().unwrap().extra.push((k.to_string(), v));
    }
    pub fn violations_total(&self) -> u64 {
        self.inner.lock().unwrap().violations_total
    }
    pub fn to_json(&self, mode: &str, seed: u64, tier: &str, wall_s: f64, rule: &str) -> J {
        let g = self.inner.lock().unwrap();
        let mut o = vec![
            ("mode".to_string(), js(mode)),
            ("seed".to_string(), J::U(seed)),
            ("tier".to_string(), js(tier)),
            ("wall_s".to_string(), J::F(wall_s)),
            ("evaluations".to_string(), J::U(g.evaluations)),
            (
                "distinct_nontrivial".to_string(),
                J::U(g.distinct.len() as u64),
            ),
            ("rule".to_string(), js(rule)),
            (
                "features".to_string(),
                J::O(g
                    .features
                    .iter()
                    .map(|(k, v)| (k.clone(), J::U(*v)))
                    .collect()),
            ),
            ("samples".to_string(), J::A(g.samples.clone())),
            ("violations_total".to_string(), J::U(g.violations_total)),
            (
                "violations".to_string(),
                J::A(g
                    .violations
                    .iter()
                    .map(|v| {
                        jo(vec![
                            ("monitor", js(&v.monitor)),
                            ("signature", js(&v.signature)),
                            ("what", js(&v.what)),
                            (
                                "replay_args",
                                J::A(v.replay_args.iter().map(js).collect()),
                            ),
                            ("detail", v.detail.clone()),
                        ])
                    })
                    .collect()),
            ),
            ("inconclusive_total".to_string(), J::U(g.inconclusive_total)),
            ("inconclusive".to_string(), J::A(g.inconclusive.clone())),
            (
                "notes".to_string(),
                J::A(g.notes.iter().map(js).collect()),
            ),
        ];
        for (k, v) in g.extra.iter() {
            o.push((k.clone(), v.clone()));
        }
        J::O(o)
    }
}

/// Per-thread accumulation, merged into the shared report now and then.
#[derive(Default)]
pub struct Local {
    pub evaluations: u64,
    pub distinct: HashSet<u64>,
    pub features: BTreeMap<String, u64>,
    pub samples: Vec<J>,
}

impl Local {
    pub fn feat(&mut self, k: &str) {
        self.feat_n(k, 1);
    }
    pub fn feat_n(&mut self, k: &str, n: u64) {
        match self.features.get_mut(k) {
            Some(v) => *v += n,
            None => {
                self.features.insert(k.to_string(), n);
            }
        }
    }
}

pub fn hash_str(s: &str) -> u64 {
    let mut x: u64 = 0xcbf29ce484222325;
    for b in s.bytes() {
        x ^= b as u64;
        x = x.wrapping_mul(0x100000001b3);
    }
    x ^ (x >> 31)
}

// ---------------------------------------------------------------------------------------
// Panic capture: a panic is an observation attributed to one case, not the end of the run.

thread_local! {
    static LAST_PANIC: RefCell<Option<(String, String)>> = const { RefCell::new(None) };
    static QUIET: RefCell<bool> = const { RefCell::new(false) };
}

pub static HARNESS_PANICS: std::sync::atomic::AtomicU64 = std::sync::atomic::AtomicU64::new(0);

pub fn install_panic_hook() {
    let default = std::panic::take_hook();
    std::panic::set_hook(Box::new(move |info| {
        let msg = if let Some(s) = info.payload().downcast_ref::<&str>() {
            s.to_string()
        } else if let Some(s) = info.payload().downcast_ref::<String>() {
            s.clone()
        } else {
            "<non-string panic payload>".to_string()
        };
        let loc = info
            .location()
            .map(|l| format!("{}:{}", l.file(), l.line()))
            .unwrap_or_else(|| "?".to_string());
        let quiet = QUIET.with(|q| *q.borrow());
        if quiet && (msg.contains("unsafe precondition") || msg.contains("misaligned pointer dereference") || msg.contains("null pointer dereference")) {
            // the compiler's undefined-behaviour checks panic without unwinding: the process aborts and `guarded` never
            // gets to report it, so the message goes to stderr for the driver to see
            eprintln!("vharness: monitored code failed an undefined-behaviour check: {msg} at {loc}");
        }
        if quiet && std::env::var("VERIF_LOUD").is_ok() {
            // debugging aid: show the backtrace of a guarded (attributed) panic
            default(info);
        }
        if !quiet {
            // a panic outside `guarded` is a defect of the harness itself: never a verdict
            HARNESS_PANICS.fetch_add(1, std::sync::atomic::Ordering::SeqCst);
            eprintln!("vharness: INTERNAL panic (harness code): {msg} at {loc}");
            if std::env::var("RUST_BACKTRACE").is_ok() {
                default(info);
            }
        }
        LAST_PANIC.with(|p| *p.borrow_mut() = Some((msg, loc)));
    }));
}

/// Run `f`; if it panics, return Err((message, location)).
pub fn guarded<T>(f: impl FnOnce() -> T) -> Result<T, (String, String)> {
    QUIET.with(|q| *q.borrow_mut() = true);
    LAST_PANIC.with(|p| *p.borrow_mut() = None);
    let r = std::panic::catch_unwind(std::panic::AssertUnwindSafe(f));
    QUIET.with(|q| *q.borrow_mut() = false);
    match r {
        Ok(v) => Ok(v),
        Err(_) => Err(LAST_PANIC
            .with(|p| p.borrow_mut().take())
            .unwrap_or(("<unknown panic>".into(), "?".into()))),
    }
}

/// Strip the absolute prefix from a source location so signatures are stable.
pub fn short_loc(loc: &str) -> String {
    match loc.find("src/") {
        Some(i) => loc[i..].to_string(),
        None => loc.to_string(),
    }
}

// ---------------------------------------------------------------------------------------
// Sharded execution on worker threads with large stacks

pub fn run_shards<F>(shards: usize, stack_mb: usize, f: F)
where
    F: Fn(usize) + Sync,
{
    std::thread::scope(|s| {
        let mut hs = Vec::new();
        for i in 0..shards {
            let fr = &f;
            hs.push(
                std::thread::Builder::new()
                    .stack_size(stack_mb << 20)
                    .spawn_scoped(s, move || fr(i))
                    .unwrap(),
            );
        }
        for h in hs {
            let _ = h.join();
        }
    });
}

// ---------------------------------------------------------------------------------------
// argv helpers

pub struct Args {
    pub v: Vec<String>,
}

impl Args {
    pub fn get(&self, key: &str) -> Option<&str> {
        let mut i = 0;
        while i + 1 < self.v.len() {
            if self.v[i] == key {
                return Some(&self.v[i + 1]);
            }
            i += 1;
        }
        None
    }
    pub fn flag(&self, key: &str) -> bool {
        self.v.iter().any(|x| x == key)
    }
    pub fn u64(&self, key: &str, default: u64) -> u64 {
        self.get(key)
            .map(|x| x.parse().unwrap_or_else(|_| panic!("bad value for {key}")))
            .unwrap_or(default)
    }
    pub fn str(&self, key: &str, default: &str) -> String {
        self.get(key).unwrap_or(default).to_string()
    }
}
