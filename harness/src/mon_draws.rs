//! C11 — repetition, fifty-move and dead-material draws follow the game history.

use crate::bridge::*;
use crate::chess::game::Game;
use crate::gen::*;
use crate::refchess::*;
use crate::stream::game_from_pos;
use crate::util::*;

/// Signature of a position for repetition purposes, read from the engine's observable state
/// (placement, side, rights, en-passant target field) — these observables are themselves
/// judged against the rules by C02.
fn signature(g: &Game) -> (Pos, Option<u8>) {
    let mut p = game_to_ref(g);
    p.hmc = 0;
    p.fmn = 0;
    let ep = p.ep;
    (p, ep)
}

fn violate(report: &Report, sig: &str, what: String, root: &str, ops: &[String]) {
    report.violation(Violation {
        monitor: "c11".into(),
        signature: sig.into(),
        what,
        replay_args: vec!["c11".into(), "--fen".into(), root.into(), "--ops".into(), ops.join(",")],
        detail: J::Null,
    });
}

/// A game history (real moves, optionally with search-style null moves) checked after each ply.
/// ops: "m:<uci>" or "n".
fn history_walk(report: &Report, root: &Pos, rng: &mut Rng, len: usize, with_nulls: bool, l: &mut Local, script: Option<Vec<String>>) {
    let root_fen = root.to_fen(EpConv::Always);
    let Some(mut g) = game_from_pos(root) else {
        return;
    };
    let mut rp = root.clone();
    // the reversible tail: signatures since the last capture / pawn move, oldest first.
    // A FEN start with a non-zero clock has no recorded history: the tail starts empty.
    let mut tail: Vec<(Pos, Option<u8>)> = vec![];
    let mut ops: Vec<String> = vec![];
    let mut last_null = false;
    let mut had_null = false;
    let mut script = script.map(|v| v.into_iter());
    for _ in 0..len {
        // observe the current position
        l.evaluations += 1;
        let cur = signature(&g);
        let engine_rep = match guarded(|| g.is_repeated_position()) {
            Ok(v) => v,
            Err((m, loc)) => {
                violate(report, "c11.panic", format!("is_repeated_position panicked: {m} at {loc}"), &root_fen, &ops);
                return;
            }
        };
        let model_rep = tail.iter().any(|t| *t == cur);
        if model_rep {
            l.feat("repetitions_observed");
            l.distinct.insert(hash_str(&format!("{root_fen}|{}", ops.join(","))));
        }
        if !tail.is_empty() && !had_null && model_rep && tail[0] == cur {
            l.feat("repetition_of_oldest_position_in_window");
        }
        if had_null {
            // with null moves inside (search shape) only the sound direction is demanded
            if engine_rep && !model_rep {
                violate(report, "c11.repetition.false-positive-with-nulls", format!("engine reports a repetition but no identical earlier position exists in the reversible tail ({})", g.to_fen()), &root_fen, &ops);
                return;
            }
        } else if engine_rep != model_rep {
            let sig = if engine_rep { "c11.repetition.false-positive" } else { "c11.repetition.missed" };
            violate(report, sig, format!("engine says repeated={engine_rep}, history scan says {model_rep} at '{}' (tail length {}, clock {})", g.to_fen(), tail.len(), rp.hmc), &root_fen, &ops);
            return;
        }
        // fifty-move rule
        let legal = rp.legal_moves();
        let engine_50 = g.is_stalemate_by_fifty_move_rule();
        let model_50 = rp.hmc >= 100 && !legal.is_empty();
        if rp.hmc >= 100 {
            l.feat("clock_ge_100_observed");
            if legal.is_empty() {
                l.feat("terminal_at_clock_ge_100");
            }
        }
        if rp.hmc == 99 {
            l.feat("clock_99_observed");
        }
        if engine_50 != model_50 {
            violate(report, "c11.fifty", format!("fifty-move verdict {engine_50}, rules {model_50} (clock {}, {} legal moves) at '{}'", rp.hmc, legal.len(), g.to_fen()), &root_fen, &ops);
            return;
        }
        // next operation
        let op: String = if let Some(it) = script.as_mut() {
            match it.next() {
                Some(t) => t,
                None => break,
            }
        } else {
            if legal.is_empty() {
                break;
            }
            if with_nulls && !last_null && !rp.in_check(rp.stm) && rng.chance(1, 12) {
                "n".to_string()
            } else {
                let m = if rng.chance(5, 6) { pick_quiet_move(&rp, &legal, rng) } else { pick_move(&rp, &legal, rng) };
                format!("m:{}", m.uci())
            }
        };
        if op == "n" {
            tail.push(cur);
            g.make_null_move();
            rp = rp.make_null();
            last_null = true;
            had_null = true;
            l.feat("null_moves_in_history");
        } else {
            let Some(m) = rp.find_uci(op.trim_start_matches("m:")) else { break };
            let Some(e) = find_engine_move(&g, m) else { break };
            let irreversible = m.capture || rp.b[m.from as usize].map(|x| x.k) == Some(Kind::P);
            if m.castle || (rp.cr != rp.make(m).cr) {
                l.feat("castling_right_lost_inside_history");
            }
            if irreversible {
                tail.clear();
            } else {
                tail.push(cur);
            }
            g.make_move(e);
            rp = rp.make(m);
            last_null = false;
        }
        ops.push(op);
    }
    if l.samples.len() < 2 && ops.len() > 8 {
        l.samples.push(jo(vec![("root", js(&root_fen)), ("ops", js(ops.iter().take(40).cloned().collect::<Vec<_>>().join(",")))]));
    }
}

/// Small-material roots where shuffling (and hence repetition) is the norm.
fn shuffle_root(rng: &mut Rng) -> Option<Pos> {
    let c = SynthCfg { max_extra: *rng.pick(&[1usize, 2, 3, 4, 5]), wild: false, focus: false, castling: rng.chance(1, 3) };
    let mut p = synth(rng, &c)?;
    // prefer piece-only positions
    if rng.chance(2, 3) {
        for s in 0..64 {
            if matches!(p.b[s], Some(pc) if pc.k == Kind::P) {
                p.b[s] = None;
            }
        }
        if !p.is_legal_position() {
            return None;
        }
    }
    p.hmc = *rng.pick(&[0u32, 0, 0, 3, 10, 40, 90, 96, 98]);
    Some(p)
}

fn material_cases(report: &Report, seed: u64, thorough: bool) {
    // (a) must be TRUE: K v K, K+minor v K — every placement, both sides to move
    run_shards(16, 16, |shard| {
        let mut l = Local::default();
        for wk in 0..64u8 {
            if wk as usize % 16 != shard {
                continue;
            }
            for bk in 0..64u8 {
                let mut base = Pos::empty();
                base.b[wk as usize] = Some(Pc { c: Color::W, k: Kind::K });
                if base.b[bk as usize].is_some() {
                    continue;
                }
                base.b[bk as usize] = Some(Pc { c: Color::B, k: Kind::K });
                for stm in [Color::W, Color::B] {
                    base.stm = stm;
                    if base.is_legal_position() {
                        check_material(report, &base, Some(true), &mut l, "bare_kings");
                    }
                    for s in 0..64u8 {
                        if base.b[s as usize].is_some() {
                            continue;
                        }
                        for c in [Color::W, Color::B] {
                            for k in [Kind::N, Kind::B, Kind::P, Kind::R, Kind::Q] {
                                if k == Kind::P && (rank_of(s) == 0 || rank_of(s) == 7) {
                                    continue;
                                }
                                let mut p = base.clone();
                                p.b[s as usize] = Some(Pc { c, k });
                                if !p.is_legal_position() {
                                    continue;
                                }
                                let want = matches!(k, Kind::N | Kind::B);
                                check_material(report, &p, Some(want), &mut l, if want { "king_and_minor" } else { "three_men_with_pawn_rook_or_queen" });
                            }
                        }
                    }
                }
            }
        }
        // (b) must be FALSE: any pawn, rook or queen present, or more than two minors — sampled
        let mut rng = Rng::new(seed, 4000 + shard as u64);
        let n = if thorough { 400_000 } else { 40_000 };
        let mut made = 0;
        while made < n {
            let c = SynthCfg { max_extra: *rng.pick(&[2usize, 3, 4, 6, 10, 20]), wild: rng.chance(1, 2), focus: false, castling: false };
            let Some(p) = synth(&mut rng, &c) else { continue };
            made += 1;
            let heavy = p.b.iter().flatten().any(|pc| matches!(pc.k, Kind::P | Kind::R | Kind::Q));
            let minors = p.b.iter().flatten().filter(|pc| matches!(pc.k, Kind::N | Kind::B)).count();
            let want = if heavy || minors > 2 {
                Some(false)
            } else if minors <= 1 {
                Some(true)
            } else {
                None // two minors: the statement leaves it to the engine
            };
            let feat = if heavy { "synth_with_pawn_rook_or_queen" } else if minors > 2 { "synth_more_than_two_minors" } else if minors == 2 { "synth_two_minors_unconstrained" } else { "synth_le_one_minor" };
            check_material(report, &p, want, &mut l, feat);
        }
        report.merge_local(&mut l);
    });
}

fn check_material(report: &Report, p: &Pos, want: Option<bool>, l: &mut Local, feat: &str) {
    l.evaluations += 1;
    l.feat(feat);
    let fen = p.to_fen(EpConv::Always);
    let Ok(g) = Game::from_fen(&fen) else { return };
    let got = g.is_stalemate_by_insufficient_material();
    l.distinct.insert(hash_str(&fen));
    if let Some(w) = want {
        if got != w {
            report.violation(Violation {
                monitor: "c11".into(),
                signature: format!("c11.material.{}", if w { "not-declared" } else { "wrongly-declared" }),
                what: format!("insufficient-material verdict {got}, statement requires {w}: {fen}"),
                replay_args: vec!["c11".into(), "--material-fen".into(), fen],
                detail: J::Null,
            });
        }
    }
}

pub fn run(args: &Args, seed: u64, tier: &str, report: &Report) -> String {
    let rule = "game histories of real moves (optionally with search-style null moves) steered to shuffle, from corpus and few-piece roots with zero and non-zero clocks: repetition verdict vs a plain scan of recorded (placement, side, rights, target) signatures since the last capture/pawn move; fifty-move verdict vs (clock>=100 and a legal move exists); material verdict on all K v K, K+1 v K placements (exhaustive) and synthesised positions; distinct = histories containing a repetition + distinct material positions";
    let thorough = tier == "thorough";
    if let Some(fen) = args.get("--material-fen") {
        let p = Pos::from_fen(fen).unwrap();
        let heavy = p.b.iter().flatten().any(|pc| matches!(pc.k, Kind::P | Kind::R | Kind::Q));
        let minors = p.b.iter().flatten().filter(|pc| matches!(pc.k, Kind::N | Kind::B)).count();
        let want = if heavy || minors > 2 { Some(false) } else if minors <= 1 { Some(true) } else { None };
        let mut l = Local::default();
        check_material(report, &p, want, &mut l, "replay");
        l.distinct.insert(1);
        l.distinct.insert(2);
        report.merge_local(&mut l);
        return rule.into();
    }
    if let Some(fen) = args.get("--fen") {
        let root = Pos::from_fen(fen).unwrap();
        let ops: Vec<String> = args.get("--ops").unwrap_or("").split(',').filter(|s| !s.is_empty()).map(|s| s.to_string()).collect();
        let mut l = Local::default();
        let mut rng = Rng::new(seed, 0);
        let n = ops.len() + 1;
        history_walk(report, &root, &mut rng, n, true, &mut l, Some(ops));
        l.distinct.insert(1);
        l.distinct.insert(2);
        report.merge_local(&mut l);
        return rule.into();
    }
    let scale = args.u64("--scale", 1);
    let games: u64 = if thorough { 1_200_000 } else { 60_000 } * scale;
    let roots = corpus_roots();
    run_shards(16, 32, |shard| {
        let mut l = Local::default();
        let mut rng = Rng::new(seed, 5000 + shard as u64);
        for i in 0..games / 16 {
            let root = match rng.below(10) {
                0..=1 => rng.pick(&roots).clone(),
                2 => {
                    let mut p = rng.pick(&roots).clone();
                    p.hmc = *rng.pick(&[0u32, 5, 50, 95, 97, 99]);
                    p
                }
                _ => match shuffle_root(&mut rng) {
                    Some(p) => p,
                    None => continue,
                },
            };
            let with_nulls = rng.chance(1, 4);
            if root.hmc > 0 {
                l.feat("fen_start_with_nonzero_clock");
            }
            let len = *rng.pick(&[30usize, 60, 120, 220]);
            history_walk(report, &root, &mut rng, len, with_nulls, &mut l, None);
            if i % 500 == 0 {
                report.merge_local(&mut l);
            }
        }
        report.merge_local(&mut l);
    });
    material_cases(report, seed, thorough);
    report.extra("x_material_bare_and_minor_exhaustive", J::B(true));
    rule.into()
}
