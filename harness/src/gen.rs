//! Workload generators: corpus roots, synthesised legal positions, biased move choice.

#![allow(dead_code)]

use crate::refchess::*;
use crate::util::Rng;

/// The six CPW perft positions + a few classics.
pub const CPW: [&str; 7] = [
    START_FEN,
    "r3k2r/p1ppqpb1/bn2pnp1/3PN3/1p2P3/2N2Q1p/PPPBBPPP/R3K2R w KQkq - 0 1",
    "8/2p5/3p4/KP5r/1R3p1k/8/4P1P1/8 w - - 0 1",
    "r3k2r/Pppp1ppp/1b3nbN/nP6/BBP1P3/q4N2/Pp1P2PP/R2Q1RK1 w kq - 0 1",
    "r2q1rk1/pP1p2pp/Q4n2/bbp1p3/Np6/1B3NBn/pPPP1PPP/R3K2R b KQ - 0 1",
    "rnbq1k1r/pp1Pbppp/2p5/8/2B5/8/PPP1NnPP/RNBQK2R w KQ - 1 8",
    "r4rk1/1pp1qppp/p1np1n2/2b1p1B1/2B1P1b1/P1NP1N2/1PP1QPPP/R4RK1 w - - 0 10",
];

/// Hand-built roots rich in the hazards the properties name.
pub const HAZARD: [&str; 66] = [
    // eight under-promotions to one kind: ten knights, bishops or rooks a side (legal; nine is the limit for queens only)
    "nnnnnnnn/nn2k3/8/8/8/8/NN2K3/NNNNNNNN w - - 0 1",
    "bbbbbbbb/bb2k3/8/8/8/8/BB2K3/BBBBBBBB b - - 0 1",
    "rrrrrrrr/rr2k3/8/8/8/8/RR2K3/RRRRRRRR w - - 0 1",
    "qqqqqqqq/q3k3/8/8/8/8/Q3K3/QQQQQQQQ b - - 0 1",
    // en passant x pins / discovered attacks
    "7b/8/8/4Pp2/3K4/8/8/k7 w - f6 0 1",
    "8/8/8/8/k2Pp2Q/8/8/3K4 b - d3 0 1",
    "8/8/8/KPp4r/8/8/8/7k w - c6 0 1",
    "8/8/8/K1pP3r/8/8/8/7k w - c6 0 1",
    "4k3/8/8/2pP4/8/8/8/4K2B w - c6 0 1",
    "3k4/8/8/q1pP1K2/8/8/8/8 w - c6 0 1",
    "8/8/3k4/8/2pP4/8/B7/4K3 b - d3 0 1",
    "4r3/8/8/3pP3/8/8/8/4K2k w - d6 0 1",
    "8/8/8/2k5/3pP3/8/8/3RK3 b - e3 0 1",
    "k7/8/8/3pP3/8/8/6b1/7K w - d6 0 1",
    "k7/b7/8/2Pp4/8/8/8/6K1 w - d6 0 1",
    "1k6/8/8/8/1pP5/8/8/1R2K3 b - c3 0 1",
    "8/8/8/8/R1pP2k1/8/8/4K3 b - d3 0 1",
    "5k2/8/8/1PpP4/8/8/8/4K3 w - c6 0 1",
    "rnbqkbnr/2pppppp/p7/Pp6/8/8/1PPPPPPP/RNBQKBNR w KQkq b6 0 3",
    "r3k2r/p1ppqpb1/bn2pnp1/3PN3/Pp2P3/2N2Q1p/1PPBBPPP/R3K2R b KQkq a3 0 1",
    // check by the just-pushed pawn, capturable only en passant
    "8/8/8/2k5/3Pp3/8/8/4K3 b - d3 0 1",
    "8/8/8/8/2pP4/1k6/8/4K3 b - d3 0 1",
    "4k3/8/8/3pP3/4K3/8/8/8 w - d6 0 1",
    // castling through / into / out of attack
    "r3k2r/8/8/8/8/8/8/R3K2R w KQkq - 0 1",
    "r3k2r/8/8/8/8/8/8/R3K2R b KQkq - 0 1",
    "r3k2r/8/8/8/8/5r2/8/R3K2R w KQkq - 0 1",
    "r3k2r/8/8/8/8/3r4/8/R3K2R w KQkq - 0 1",
    "r3k2r/8/8/8/8/1r6/8/R3K2R w KQkq - 0 1",
    "r3k2r/8/8/8/8/6r1/8/R3K2R w KQkq - 0 1",
    "r3k2r/8/8/8/8/4r3/8/R3K2R w KQkq - 0 1",
    "r3k2r/8/8/8/8/8/6p1/R3K2R w KQkq - 0 1",
    "r3k2r/8/8/8/8/8/3p4/R3K2R w KQkq - 0 1",
    "r3k2r/8/8/8/8/2n5/8/R3K2R w KQkq - 0 1",
    "r3k2r/8/5N2/8/8/8/8/R3K2R b KQkq - 0 1",
    "r3k2r/1P6/8/8/8/8/8/R3K2R b KQkq - 0 1",
    "r3k2r/8/8/8/8/8/8/R3K1NR w KQkq - 0 1",
    "rn2k2r/8/8/8/8/8/8/RN2K2R w KQkq - 0 1",
    "r3k2r/8/8/8/8/8/7b/R3K2R w KQkq - 0 1",
    "4k2r/8/8/8/8/8/8/4K2R w Kk - 0 1",
    "r3k3/8/8/8/8/8/8/R3K3 w Qq - 0 1",
    // double check, pinned sliders and pawns moving along the ray
    "4k3/8/8/8/8/5n2/4r3/4K3 w - - 0 1",
    "k7/8/8/8/7b/8/5R2/4K2r w - - 0 1",
    "4r2k/8/8/8/8/8/4R3/4K3 w - - 0 1",
    "7k/8/8/8/b7/8/2B5/3K4 w - - 0 1",
    "rnb1kbnr/pppp1ppp/4pq2/8/8/5P2/PPPPPKPP/RNBQ1BNR w kq - 2 3",
    "4k3/8/8/8/8/4r3/4P3/4K3 w - - 0 1",
    "4k3/8/8/7b/8/5P2/8/3K4 w - - 0 1",
    "4k3/8/8/7b/6p1/5P2/8/3K4 w - - 0 1",
    "k7/8/8/8/8/2q5/3P4/4K3 w - - 0 1",
    "3rk3/8/8/8/8/8/3Q4/3K4 w - - 0 1",
    "k7/8/8/8/8/8/q2N1K2/8 w - - 0 1",
    // promotions while in check / capture-promotions / many promoted pieces
    "3r2k1/4P3/8/8/8/8/8/r3K3 w - - 0 1",
    "1n2k3/P7/8/8/8/8/8/r3K3 w - - 0 1",
    "r1n1k3/1P6/8/8/8/8/8/4K2r w - - 0 1",
    "8/P1k5/8/8/8/8/5Kp1/7R b - - 0 1",
    "n1n5/PPPk4/8/8/8/8/4Kppp/5N1N b - - 0 1",
    "k7/pppppppp/8/8/8/8/QQQQQQQQ/KQRRBBNN w - - 0 1",
    "1k6/qqqqqqqq/8/8/8/8/QQQQQQQQ/1K6 w - - 0 1",
    // tiny trees, mates, fifty-move edges
    "8/6k1/8/2R5/8/1K6/3Q1p2/8 w - - 1 25",
    "8/8/8/8/8/2k5/8/K2Q4 w - - 0 1",
    "7k/5Q2/6K1/8/8/8/8/8 b - - 99 80",
    "7k/8/6K1/5Q2/8/8/8/8 w - - 99 80",
    "8/8/8/8/8/2k5/1r6/K7 w - - 98 90",
    "5b1K/5k1N/8/8/8/8/8/8 b - - 1 1",
    "8/8/3k4/4n3/8/2KB4/8/8 w - - 0 1",
    "8/8/4k3/4n3/8/2KR4/8/8 w - - 0 1",
];

/// FEN strings of the engine's own bench set, read from the repository source text.
pub fn bench_fens() -> Vec<String> {
    let src = include_str!("../repo/src/engine/uci/bench.rs");
    let mut out = Vec::new();
    for line in src.lines() {
        let t = line.trim();
        if let Some(rest) = t.strip_prefix('"') {
            if let Some(end) = rest.find('"') {
                let f = &rest[..end];
                if f.matches('/').count() == 7 {
                    out.push(f.to_string());
                }
            }
        }
    }
    out
}

pub fn corpus_roots() -> Vec<Pos> {
    let mut out = Vec::new();
    for f in CPW.iter().chain(HAZARD.iter()) {
        let p = Pos::from_fen(f).unwrap_or_else(|e| panic!("corpus FEN {f}: {e}"));
        assert!(p.is_legal_position(), "corpus position not legal: {f}");
        out.push(p);
    }
    for f in bench_fens() {
        if let Ok(p) = Pos::from_fen(&f) {
            if p.is_legal_position() {
                out.push(p);
            }
        }
    }
    out
}

pub struct SynthCfg {
    pub max_extra: usize,
    /// allow material far outside normal play (many queens etc.)
    pub wild: bool,
    /// concentrate pieces around one square (for SEE / SAN disambiguation)
    pub focus: bool,
    pub castling: bool,
}

/// Random legal position (property definition), or None if the draw was rejected.
pub fn synth(rng: &mut Rng, cfg: &SynthCfg) -> Option<Pos> {
    let mut p = Pos::empty();
    let with_castling = cfg.castling && rng.chance(1, 3);
    let wk: Sq;
    let bk: Sq;
    if with_castling {
        wk = if rng.chance(2, 3) { 4 } else { rng.below(64) as Sq };
        bk = if rng.chance(2, 3) { 60 } else { rng.below(64) as Sq };
    } else {
        wk = rng.below(64) as Sq;
        bk = rng.below(64) as Sq;
    }
    if wk == bk || ((file_of(wk) - file_of(bk)).abs() <= 1 && (rank_of(wk) - rank_of(bk)).abs() <= 1)
    {
        return None;
    }
    p.b[wk as usize] = Some(Pc {
        c: Color::W,
        k: Kind::K,
    });
    p.b[bk as usize] = Some(Pc {
        c: Color::B,
        k: Kind::K,
    });
    if with_castling {
        for (ks, corner, c) in [
            (4u8, 7u8, Color::W),
            (4, 0, Color::W),
            (60, 63, Color::B),
            (60, 56, Color::B),
        ] {
            let king_home = p.b[ks as usize] == Some(Pc { c, k: Kind::K });
            if king_home && rng.chance(2, 3) && p.b[corner as usize].is_none() {
                p.b[corner as usize] = Some(Pc { c, k: Kind::R });
            }
        }
    }
    let n = rng.below(cfg.max_extra as u64 + 1) as usize;
    let focus_sq = rng.below(64) as i32;
    // kind weights
    let weights: [u64; 5] = if cfg.wild {
        *rng.pick(&[
            [4, 2, 2, 2, 1],
            [1, 1, 1, 1, 6],
            [1, 5, 1, 1, 1],
            [1, 1, 5, 1, 1],
            [1, 1, 1, 5, 1],
            [6, 1, 1, 1, 1],
        ])
    } else {
        [8, 2, 2, 2, 1]
    };
    let mut counts = [[0usize; 6]; 2];
    for _ in 0..n {
        let c = if rng.chance(1, 2) { Color::W } else { Color::B };
        let k = [Kind::P, Kind::N, Kind::B, Kind::R, Kind::Q][rng.weighted(&weights)];
        let ci = c as usize;
        // material bound: at most 16 men a side, promoted pieces need missing pawns
        let total: usize = counts[ci].iter().sum::<usize>() + 1; // + king
        if total >= 16 {
            continue;
        }
        if k == Kind::P && counts[ci][0] >= 8 {
            continue;
        }
        let s: Sq = if cfg.focus && rng.chance(3, 4) {
            let f = (file_of(focus_sq as Sq) + rng.range(-2, 2) as i32).clamp(0, 7);
            let r = (rank_of(focus_sq as Sq) + rng.range(-2, 2) as i32).clamp(0, 7);
            sq(f, r)
        } else {
            rng.below(64) as Sq
        };
        if p.b[s as usize].is_some() {
            continue;
        }
        if k == Kind::P && (rank_of(s) == 0 || rank_of(s) == 7) {
            continue;
        }
        p.b[s as usize] = Some(Pc { c, k });
        counts[ci][k as usize] += 1;
    }
    // promoted-piece budget: extra N/B/R/Q beyond the initial set need missing pawns
    for ci in 0..2 {
        let extra = counts[ci][1].saturating_sub(2)
            + counts[ci][2].saturating_sub(2)
            + counts[ci][3].saturating_sub(2)
            + counts[ci][4].saturating_sub(1);
        if extra + counts[ci][0] > 8 {
            return None;
        }
    }
    p.stm = if rng.chance(1, 2) { Color::W } else { Color::B };
    // castling rights only where king and rook are at home
    for (idx, c, rf, rr) in [
        (0usize, Color::W, 7, 0),
        (1, Color::W, 0, 0),
        (2, Color::B, 7, 7),
        (3, Color::B, 0, 7),
    ] {
        if p.b[sq(4, rr) as usize] == Some(Pc { c, k: Kind::K })
            && p.b[sq(rf, rr) as usize] == Some(Pc { c, k: Kind::R })
            && rng.chance(3, 4)
        {
            p.cr[idx] = true;
        }
    }
    p.hmc = match rng.below(8) {
        0 => rng.below(100) as u32,
        1 => 98 + rng.below(4) as u32,
        _ => 0,
    };
    p.fmn = 1 + rng.below(120) as u32;
    // now and then counters far beyond normal play (legal: a FEN may carry any clock and move number)
    if rng.chance(1, 40) {
        p.hmc = *rng.pick(&[150u32, 255, 256, 1000, 65_536, 3_000_000]);
        p.fmn = p.fmn.max(p.hmc / 2 + 1);
    }
    if rng.chance(1, 40) {
        p.fmn = *rng.pick(&[255u32, 256, 65_535, 65_536, 1_000_000, 1_000_000_000]);
    }
    if !p.is_legal_position() {
        return None;
    }
    Some(p)
}

/// A legal position carrying an en-passant target, produced by actually playing a double
/// push from a legal predecessor.
pub fn synth_with_ep(rng: &mut Rng, cfg: &SynthCfg) -> Option<Pos> {
    let p = synth(rng, cfg)?;
    let pushes: Vec<Mv> = p
        .legal_moves()
        .into_iter()
        .filter(|m| {
            p.b[m.from as usize].map(|x| x.k) == Some(Kind::P)
                && (rank_of(m.to) - rank_of(m.from)).abs() == 2
        })
        .collect();
    if pushes.is_empty() {
        return None;
    }
    let m = *rng.pick(&pushes);
    Some(p.make(m))
}

/// Move-choice weights that make the rare transitions common.
pub fn move_weight(p: &Pos, m: &Mv) -> u64 {
    let pc = p.b[m.from as usize].unwrap();
    let mut w = 10;
    if m.capture {
        w += 25;
    }
    if m.promo.is_some() {
        w += 60;
    }
    if m.castle {
        w += 150;
    }
    if m.ep {
        w += 400;
    }
    if pc.k == Kind::P && (rank_of(m.to) - rank_of(m.from)).abs() == 2 {
        // double push, more so next to an enemy pawn
        w += 15;
        for df in [-1, 1] {
            let f = file_of(m.to) + df;
            if on_board(f, rank_of(m.to))
                && p.b[sq(f, rank_of(m.to)) as usize]
                    == Some(Pc {
                        c: p.stm.other(),
                        k: Kind::P,
                    })
            {
                w += 120;
            }
        }
    }
    if pc.k == Kind::P {
        w += 6;
    }
    // first moves of kings and rooks while rights exist
    if (pc.k == Kind::K || pc.k == Kind::R) && p.cr.iter().any(|x| *x) {
        w += 8;
    }
    w
}

pub fn pick_move(p: &Pos, moves: &[Mv], rng: &mut Rng) -> Mv {
    let w: Vec<u64> = moves.iter().map(|m| move_weight(p, m)).collect();
    moves[rng.weighted(&w)]
}

/// A shuffling-friendly choice (for repetition workloads): prefer reversible piece moves.
pub fn pick_quiet_move(p: &Pos, moves: &[Mv], rng: &mut Rng) -> Mv {
    let w: Vec<u64> = moves
        .iter()
        .map(|m| {
            let pc = p.b[m.from as usize].unwrap();
            if m.capture || pc.k == Kind::P || m.castle {
                1
            } else {
                30
            }
        })
        .collect();
    moves[rng.weighted(&w)]
}

/// Features of a position that the properties name as hazards.
pub struct PosFeatures {
    pub in_check: bool,
    pub double_check: bool,
    pub has_ep_capture: bool,
    pub has_ep_target: bool,
    pub can_castle: bool,
    pub has_promotion: bool,
    pub has_pin: bool,
}

pub fn features(p: &Pos, legal: &[Mv]) -> PosFeatures {
    let checkers = p.checkers();
    let pseudo = p.pseudo_moves();
    PosFeatures {
        in_check: !checkers.is_empty(),
        double_check: checkers.len() > 1,
        has_ep_capture: legal.iter().any(|m| m.ep),
        has_ep_target: p.ep.is_some(),
        can_castle: legal.iter().any(|m| m.castle),
        has_promotion: legal.iter().any(|m| m.promo.is_some()),
        // some pseudo-legal non-king move is illegal although we are not in check => a pin
        has_pin: checkers.is_empty()
            && pseudo.iter().any(|m| {
                p.b[m.from as usize].map(|x| x.k) != Some(Kind::K) && !legal.contains(m)
            }),
    }
}

/// Every legal position with the two kings and one more man (any kind, either colour, either side to
/// move): a finite sub-space small enough to enumerate completely (~2.3 M positions).
pub fn three_men(shard: usize, shards: usize, f: &mut dyn FnMut(&Pos)) {
    for wk in 0..64u8 {
        if wk as usize % shards != shard {
            continue;
        }
        for bk in 0..64u8 {
            if bk == wk || ((file_of(wk) - file_of(bk)).abs() <= 1 && (rank_of(wk) - rank_of(bk)).abs() <= 1) {
                continue;
            }
            for s in 0..64u8 {
                if s == wk || s == bk {
                    continue;
                }
                for c in [Color::W, Color::B] {
                    for k in [Kind::P, Kind::N, Kind::B, Kind::R, Kind::Q] {
                        if k == Kind::P && (rank_of(s) == 0 || rank_of(s) == 7) {
                            continue;
                        }
                        for stm in [Color::W, Color::B] {
                            let mut p = Pos::empty();
                            p.b[wk as usize] = Some(Pc { c: Color::W, k: Kind::K });
                            p.b[bk as usize] = Some(Pc { c: Color::B, k: Kind::K });
                            p.b[s as usize] = Some(Pc { c, k });
                            p.stm = stm;
                            if p.is_legal_position() {
                                f(&p);
                            }
                        }
                    }
                }
            }
        }
    }
}
