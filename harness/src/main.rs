//! vharness — in-process runtime monitors for the Tcheran properties.
//!
//! The repository's module trees are mounted *by path* (through the `repo` symlink, which
//! points at /repo), so this binary always compiles /repo's current working tree and the
//! monitors live in the same crate as the code they watch.

#![allow(
    unfulfilled_lint_expectations,
    unused,
    dead_code,
    clippy::all,
    static_mut_refs
)]

#[path = "../repo/src/chess/mod.rs"]
mod chess;
#[path = "../repo/src/engine/mod.rs"]
mod engine;

// the repository's main.rs has these at the crate root and its modules refer to them
use engine::uci;

pub const ENGINE_NAME: &str = "Tcheran";

pub fn engine_version() -> String {
    "v5.1-verif".to_string()
}

pub fn init() {
    chess::init();
    engine::init();
}

mod bridge;
mod gen;
mod refchess;
mod stream;
mod util;

mod mon_board;
mod mon_draws;
mod mon_fen;
mod mon_miri;
mod mon_picker;
mod mon_pos;
mod mon_search;
mod mon_selftest;
mod mon_tables;
mod mon_time;
mod mon_tt;
mod mon_walk;

use util::{Args, Report};

fn main() {
    let argv: Vec<String> = std::env::args().collect();
    if argv.len() < 2 {
        eprintln!("usage: vharness <mode> [--seed S] [--tier quick|thorough] [--out file.json] ...");
        std::process::exit(2);
    }
    let mode = argv[1].clone();
    let args = Args {
        v: argv[2..].to_vec(),
    };
    let seed = args.u64("--seed", 1);
    // a stage may size its workload like another tier (e.g. sanitizer builds in the thorough tier)
    let tier = match args.get("--tier-override") {
        Some(t) => t.to_string(),
        None => args.str("--tier", "quick"),
    };
    let out = args.get("--out").map(|s| s.to_string());

    util::install_panic_hook();
    let t0 = std::time::Instant::now();
    let report = Report::new();

    // modes that must not touch the engine's tables before deciding (Miri runs) call
    // init() themselves
    let rule: String = match mode.as_str() {
        "selftest" => mon_selftest::run(&args, &report),
        "oracle" => {
            mon_selftest::oracle(&args);
            return;
        }
        "c01" => {
            init();
            mon_board::run_c01(&args, seed, &tier, &report)
        }
        "c02" => {
            init();
            mon_walk::run(mon_walk::Prop::C02, &args, seed, &tier, &report)
        }
        "c03" => {
            init();
            mon_walk::run(mon_walk::Prop::C03, &args, seed, &tier, &report)
        }
        "c15" => {
            init();
            mon_walk::run(mon_walk::Prop::C15, &args, seed, &tier, &report)
        }
        "c07" => {
            init();
            mon_tables::run(&args, seed, &report)
        }
        "c10" => {
            init();
            mon_picker::run(&args, seed, &tier, &report)
        }
        "c11" => {
            init();
            mon_draws::run(&args, seed, &tier, &report)
        }
        "c16" => {
            init();
            mon_pos::run(mon_pos::PProp::C16, &args, seed, &tier, &report)
        }
        "c18" => {
            init();
            mon_pos::run(mon_pos::PProp::C18, &args, seed, &tier, &report)
        }
        "c20" => {
            init();
            mon_pos::run(mon_pos::PProp::C20, &args, seed, &tier, &report)
        }
        "c06" => {
            init();
            mon_fen::run(&args, seed, &tier, &report)
        }
        // the table needs none of the engine's static tables: no init() (keeps Miri runs short)
        "c19" => mon_tt::run(&args, seed, &tier, &report),
        "c04" => {
            init();
            mon_search::run_c04_c08(mon_search::SProp::C04, &args, seed, &tier, &report)
        }
        "c08" => {
            init();
            mon_search::run_c04_c08(mon_search::SProp::C08, &args, seed, &tier, &report)
        }
        "c09" => {
            init();
            mon_search::run_c09(&args, seed, &tier, &report)
        }
        "c11s" => {
            init();
            mon_search::run_c11_search(&args, seed, &tier, &report)
        }
        "c12" => {
            init();
            mon_search::run_c12(&args, seed, &tier, &report)
        }
        "c14" => {
            init();
            mon_time::run(&args, seed, &tier, &report)
        }
        "miri-c01" => {
            init();
            mon_miri::run("c01", &args, &report)
        }
        "miri-c04" => {
            init();
            mon_miri::run_search(&args, &report)
        }
        "miri-c16" => {
            init();
            mon_miri::run("c16", &args, &report)
        }
        "miri-c02" => {
            init();
            mon_miri::run("c02", &args, &report)
        }
        _ => {
            eprintln!("unknown mode {mode}");
            std::process::exit(2);
        }
    };

    let wall = t0.elapsed().as_secs_f64();
    let j = report.to_json(&mode, seed, &tier, wall, &rule);
    let text = j.to_string();
    match out {
        Some(path) => std::fs::write(&path, text).expect("write report"),
        None => println!("{text}"),
    }
    let nviol = report.violations_total();
    eprintln!(
        "vharness {mode}: evaluations={} violations={} wall={:.1}s",
        report.inner.lock().unwrap().evaluations,
        nviol,
        wall
    );
    // exit status: 0 = ran to completion (violations are in the report), 3 = internal error
    if util::HARNESS_PANICS.load(std::sync::atomic::Ordering::SeqCst) > 0 {
        eprintln!("vharness: harness code panicked; the report is not trustworthy");
        std::process::exit(3);
    }
    std::process::exit(0);
}
