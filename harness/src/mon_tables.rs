//! C07 — attack tables equal first-principles geometry (exhaustive).

use crate::bridge::esq;
use crate::chess::bitboard::Bitboard;
use crate::chess::movegen::tables;
use crate::chess::player::Player;
use crate::util::*;

fn on(f: i32, r: i32) -> bool {
    (0..8).contains(&f) && (0..8).contains(&r)
}
fn bit(f: i32, r: i32) -> u64 {
    1u64 << (r * 8 + f)
}

/// Ray walk by coordinate arithmetic (no bitboard shifts).
fn ray_attacks(sq: u8, occ: u64, dirs: &[(i32, i32)]) -> u64 {
    let (f0, r0) = ((sq % 8) as i32, (sq / 8) as i32);
    let mut out = 0u64;
    for (df, dr) in dirs {
        let (mut f, mut r) = (f0 + df, r0 + dr);
        while on(f, r) {
            out |= bit(f, r);
            if occ & bit(f, r) != 0 {
                break;
            }
            f += df;
            r += dr;
        }
    }
    out
}

/// Relevant blocker mask: ray squares excluding the last square of each ray.
fn relevant_mask(sq: u8, dirs: &[(i32, i32)]) -> u64 {
    let (f0, r0) = ((sq % 8) as i32, (sq / 8) as i32);
    let mut out = 0u64;
    for (df, dr) in dirs {
        let (mut f, mut r) = (f0 + df, r0 + dr);
        while on(f + df, r + dr) {
            out |= bit(f, r);
            f += df;
            r += dr;
        }
    }
    out
}

const ROOK: [(i32, i32); 4] = [(1, 0), (0, 1), (-1, 0), (0, -1)];
const BISHOP: [(i32, i32); 4] = [(1, 1), (-1, 1), (-1, -1), (1, -1)];

fn offsets(sq: u8, d: &[(i32, i32)]) -> u64 {
    let (f0, r0) = ((sq % 8) as i32, (sq / 8) as i32);
    let mut out = 0;
    for (df, dr) in d {
        if on(f0 + df, r0 + dr) {
            out |= bit(f0 + df, r0 + dr);
        }
    }
    out
}

fn between_geo(a: u8, b: u8) -> u64 {
    if a == b {
        return 0;
    }
    let (fa, ra, fb, rb) = ((a % 8) as i32, (a / 8) as i32, (b % 8) as i32, (b / 8) as i32);
    let (df, dr) = (fb - fa, rb - ra);
    if !(df == 0 || dr == 0 || df.abs() == dr.abs()) {
        return 0;
    }
    let (sf, sr) = (df.signum(), dr.signum());
    let mut out = 0;
    let (mut f, mut r) = (fa + sf, ra + sr);
    while (f, r) != (fb, rb) {
        out |= bit(f, r);
        f += sf;
        r += sr;
    }
    out
}

fn bbs(x: u64) -> String {
    format!("{x:#018x}")
}

/// `squares`: which squares this process covers (Miri shards by square).
pub fn run(args: &Args, seed: u64, report: &Report) -> String {
    let lo = args.u64("--sq-lo", 0) as u8;
    let hi = args.u64("--sq-hi", 63) as u8;
    let single_threaded = args.flag("--single-thread");
    let skip_between = args.flag("--no-between");
    let variants = args.u64("--variants", 5);
    let slider_cases = std::sync::atomic::AtomicU64::new(0);
    let work = |sq: u8, l: &mut Local| {
        for (name, dirs, is_rook) in [("rook", &ROOK, true), ("bishop", &BISHOP, false)] {
            let mask = relevant_mask(sq, dirs);
            // every subset of the relevant mask (Carry-Rippler)
            let mut sub = 0u64;
            let mut rng = Rng::new(seed, sq as u64 * 2 + is_rook as u64);
            loop {
                let want = ray_attacks(sq, sub, dirs);
                // the subset itself + 4 supersets differing only in irrelevant bits
                for variant in 0..variants {
                    let occ = match variant {
                        0 => sub,
                        1 => sub | (1u64 << sq),
                        2 => sub | !mask,
                        3 => sub | (rng.next() & !mask),
                        _ => sub | (rng.next() & rng.next() & !mask),
                    };
                    let got = guarded(|| {
                        if is_rook {
                            tables::rook_attacks(esq(sq), Bitboard::new(occ)).as_u64()
                        } else {
                            tables::bishop_attacks(esq(sq), Bitboard::new(occ)).as_u64()
                        }
                    });
                    l.evaluations += 1;
                    match got {
                        Ok(g) if g == want => {}
                        Ok(g) => report.violation(Violation {
                            monitor: "c07".into(),
                            signature: format!("c07.{name}.wrong-set"),
                            what: format!("{name} on {} with occupancy {}: table {} != ray walk {}", crate::refchess::sq_name(sq), bbs(occ), bbs(g), bbs(want)),
                            replay_args: vec!["c07".into(), "--sq-lo".into(), sq.to_string(), "--sq-hi".into(), sq.to_string()],
                            detail: J::Null,
                        }),
                        Err((m, loc)) => report.violation(Violation {
                            monitor: "c07".into(),
                            signature: format!("c07.{name}.index-out-of-table"),
                            what: format!("{name} on {} with occupancy {}: {m} at {loc}", crate::refchess::sq_name(sq), bbs(occ)),
                            replay_args: vec!["c07".into(), "--sq-lo".into(), sq.to_string(), "--sq-hi".into(), sq.to_string()],
                            detail: J::Null,
                        }),
                    }
                }
                slider_cases.fetch_add(1, std::sync::atomic::Ordering::Relaxed);
                l.feat(if is_rook { "rook_subsets" } else { "bishop_subsets" });
                l.distinct.insert(((sq as u64) << 58) ^ sub ^ if is_rook { 1u64 << 57 } else { 0 });
                sub = sub.wrapping_sub(mask) & mask;
                if sub == 0 {
                    break;
                }
            }
        }
        // leapers and pawns
        let knight = offsets(sq, &[(1, 2), (2, 1), (2, -1), (1, -2), (-1, -2), (-2, -1), (-2, 1), (-1, 2)]);
        let king = offsets(sq, &[(1, 0), (1, 1), (0, 1), (-1, 1), (-1, 0), (-1, -1), (0, -1), (1, -1)]);
        let wp = offsets(sq, &[(-1, 1), (1, 1)]);
        let bp = offsets(sq, &[(-1, -1), (1, -1)]);
        for (name, got, want) in [
            ("knight", tables::knight_attacks(esq(sq)).as_u64(), knight),
            ("king", tables::king_attacks(esq(sq)).as_u64(), king),
            ("white-pawn", tables::pawn_attacks(esq(sq), Player::White).as_u64(), wp),
            ("black-pawn", tables::pawn_attacks(esq(sq), Player::Black).as_u64(), bp),
        ] {
            l.evaluations += 1;
            l.feat("leaper_entries");
            if got != want {
                report.violation(Violation {
                    monitor: "c07".into(),
                    signature: format!("c07.{name}.wrong-set"),
                    what: format!("{name} on {}: table {} != geometry {}", crate::refchess::sq_name(sq), bbs(got), bbs(want)),
                    replay_args: vec!["c07".into(), "--sq-lo".into(), sq.to_string(), "--sq-hi".into(), sq.to_string()],
                    detail: J::Null,
                });
            }
        }
        if !skip_between {
            for b in 0..64u8 {
                l.evaluations += 1;
                l.feat("between_pairs");
                let got = tables::between(esq(sq), esq(b)).as_u64();
                let want = between_geo(sq, b);
                if got != want {
                    report.violation(Violation {
                        monitor: "c07".into(),
                        signature: "c07.between.wrong-set".into(),
                        what: format!("between({}, {}): table {} != geometry {}", crate::refchess::sq_name(sq), crate::refchess::sq_name(b), bbs(got), bbs(want)),
                        replay_args: vec!["c07".into(), "--sq-lo".into(), sq.to_string(), "--sq-hi".into(), sq.to_string()],
                        detail: J::Null,
                    });
                }
            }
        }
    };
    let squares: Vec<u8> = (lo..=hi).collect();
    if single_threaded {
        let mut l = Local::default();
        for s in squares.iter() {
            work(*s, &mut l);
        }
        report.merge_local(&mut l);
    } else {
        run_shards(16, 16, |shard| {
            let mut l = Local::default();
            for (i, s) in squares.iter().enumerate() {
                if i % 16 == shard {
                    work(*s, &mut l);
                }
            }
            if shard == 0 {
                l.samples.push(js("rook a1, occupancy = every subset of 0x000101010101017e, plus 4 supersets differing in irrelevant bits each"));
                l.samples.push(js("between(a1,h8) vs 0x0040201008040200"));
            }
            report.merge_local(&mut l);
        });
    }
    let n = slider_cases.load(std::sync::atomic::Ordering::Relaxed);
    report.extra("x_slider_subset_cases", J::U(n));
    if lo == 0 && hi == 63 {
        report.extra("x_slider_subset_cases_expected", J::U(107_648));
        if n != 107_648 {
            report.note(format!("enumeration count {n} != 107648"));
        }
    }
    "all 64 squares x every subset of the relevant blocker mask (107,648 slider cases) x 5 occupancies each differing only in irrelevant bits; knight/king/pawn tables on 64 squares; between() on 64x64 pairs; oracle = coordinate-arithmetic ray walk; distinct = (square, slider kind, blocker subset)".to_string()
}
