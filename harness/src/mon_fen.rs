//! C06 — FEN is lossless on legal positions and never crashes the reader.

use crate::bridge::*;
use crate::chess::game::Game;
use crate::chess::zobrist;
use crate::gen::*;
use crate::refchess::*;
use crate::stream::*;
use crate::util::*;

fn fields_equal(a: &Game, b: &Game) -> Option<String> {
    for s in 0..64u8 {
        if a.board.piece_at(esq(s)) != b.board.piece_at(esq(s)) {
            return Some(format!("placement at {}", sq_name(s)));
        }
    }
    if a.board.occupancy().as_u64() != b.board.occupancy().as_u64() {
        return Some("occupancy".into());
    }
    if a.player != b.player {
        return Some("side".into());
    }
    let cr = |g: &Game| {
        let (w, b) = (g.castle_rights.white(), g.castle_rights.black());
        [w.king_side, w.queen_side, b.king_side, b.queen_side]
    };
    if cr(a) != cr(b) {
        return Some("castling rights".into());
    }
    if a.en_passant_target != b.en_passant_target {
        return Some("en-passant target".into());
    }
    if a.halfmove_clock != b.halfmove_clock {
        return Some("halfmove clock".into());
    }
    if a.plies != b.plies {
        return Some("plies / move number".into());
    }
    if a.zobrist != b.zobrist {
        return Some("key".into());
    }
    if a.incremental_eval.phase_value != b.incremental_eval.phase_value || a.incremental_eval.piece_square_tables != b.incremental_eval.piece_square_tables {
        return Some("evaluation accumulators".into());
    }
    None
}

/// (a) round trips on a legal position held live by the engine
fn check_roundtrip(g: &Game, p: &Pos, l: &mut Local) -> Option<(String, String)> {
    l.evaluations += 1;
    // position -> text -> position
    let text = match guarded(|| g.to_fen()) {
        Ok(t) => t,
        Err((m, loc)) => return Some((format!("c06.writer-panic@{}", short_loc(&loc)), m)),
    };
    match guarded(|| Game::from_fen(&text)) {
        Ok(Ok(back)) => {
            if let Some(f) = fields_equal(g, &back) {
                return Some(("c06.roundtrip.position".into(), format!("writing and reading back changes {f}: '{text}'")));
            }
            if back.zobrist != zobrist::hash(&back) {
                return Some(("c06.roundtrip.key".into(), format!("key of the read position != key from scratch: '{text}'")));
            }
        }
        Ok(Err(e)) => return Some(("c06.roundtrip.rejected".into(), format!("the engine's own FEN output is rejected by its reader: '{text}': {e}"))),
        Err((m, loc)) => return Some((format!("c06.reader-panic@{}", short_loc(&loc)), format!("reading '{text}' panicked: {m}"))),
    }
    // canonical text -> position -> text, under every recording convention of the target field
    for conv in EP_CONVS {
        let canon = p.to_fen(conv);
        l.evaluations += 1;
        if p.ep.is_some() {
            l.feat("canonical_text_with_ep_history");
        }
        match guarded(|| Game::from_fen(&canon)) {
            Ok(Ok(read)) => {
                let rp = game_to_ref(&read);
                let mut want = p.clone();
                want.ep = p.ep_field(conv);
                if rp != want {
                    return Some(("c06.read.fields".into(), format!("reading '{canon}' gives '{}'", rp.to_fen(EpConv::Always))));
                }
                let out = read.to_fen();
                if out != canon {
                    return Some(("c06.text-roundtrip".into(), format!("reading '{canon}' and writing it back gives '{out}'")));
                }
                if read.zobrist != zobrist::hash(&read) {
                    return Some(("c06.read.key".into(), format!("key after reading '{canon}' differs from the key from scratch")));
                }
                // same position as the live one => same key as reached by moves
                if read.en_passant_target == g.en_passant_target && read.zobrist != g.zobrist {
                    return Some(("c06.read.key-vs-moves".into(), format!("'{canon}' read from text has a different key than the same position reached by moves")));
                }
            }
            Ok(Err(e)) => return Some(("c06.read.rejected".into(), format!("canonical FEN of a legal position rejected: '{canon}': {e}"))),
            Err((m, loc)) => return Some((format!("c06.reader-panic@{}", short_loc(&loc)), format!("reading '{canon}' panicked: {m}"))),
        }
    }
    None
}

// -- hostile text ---------------------------------------------------------------------------

/// Our own reading of the placement field: Some(widths) if the first whitespace-separated
/// field consists of exactly eight '/'-separated runs over [1-8PNBRQKpnbrqk].
fn rank_widths(text: &str) -> Option<Vec<usize>> {
    let first = text.split(|c: char| c == ' ' || c == '\t').next()?;
    let ranks: Vec<&str> = first.split('/').collect();
    if ranks.len() != 8 {
        return None;
    }
    let mut w = vec![];
    for r in ranks {
        if r.is_empty() {
            return None;
        }
        let mut n = 0usize;
        for ch in r.chars() {
            if let Some(d) = ch.to_digit(10) {
                if !(1..=8).contains(&d) {
                    return None;
                }
                n += d as usize;
            } else if "PNBRQKpnbrqk".contains(ch) {
                n += 1;
            } else {
                return None;
            }
        }
        w.push(n);
    }
    Some(w)
}

fn classify_panic(text: &str, msg: &str) -> &'static str {
    if let Some(w) = rank_widths(text) {
        if w.iter().sum::<usize>() != 64 {
            return "rank-total";
        }
    }
    if msg.contains("overflow") {
        return "counter-arithmetic";
    }
    "other"
}

fn check_hostile(text: &str, l: &mut Local) -> Option<(String, String)> {
    l.evaluations += 1;
    let r = guarded(|| Game::from_fen(text).map(|g| g.to_fen()));
    let widths = rank_widths(text);
    match r {
        Err((m, loc)) => {
            let class = classify_panic(text, &m);
            l.feat(&format!("reader_panic_class_{class}"));
            Some((format!("c06.reader-panic@{}", short_loc(&loc)), format!("reading {text:?} panicked: {m}")))
        }
        Ok(Ok(out)) => {
            l.feat("hostile_accepted");
            if let Some(w) = widths {
                if w.iter().any(|x| *x != 8) {
                    return Some(("c06.accepts-bad-rank-width".into(), format!("{text:?} has rank widths {w:?} but is accepted (as '{out}')")));
                }
            }
            // whatever Game the reader made of the text (short texts with defaulted fields included): writing it and
            // reading that back must give the same Game again - counters and key included
            let again = guarded(|| {
                let g = Game::from_fen(text).ok()?;
                let g2 = Game::from_fen(&g.to_fen()).ok()?;
                Some((
                    format!("{} plies={} clock={} key={:x}", g.to_fen(), g.plies, g.halfmove_clock, g.zobrist.0),
                    format!("{} plies={} clock={} key={:x}", g2.to_fen(), g2.plies, g2.halfmove_clock, g2.zobrist.0),
                ))
            });
            match again {
                Ok(Some((a, b))) => {
                    l.feat("accepted_texts_written_and_read_back");
                    if a != b {
                        return Some(("c06.roundtrip.accepted-text".into(), format!("the Game read from {text:?} is [{a}]; written and read back it is [{b}]")));
                    }
                }
                Ok(None) => return Some(("c06.roundtrip.rejected".into(), format!("the Game read from {text:?} writes itself as '{out}', which the reader refuses"))),
                Err((m, loc)) => return Some((format!("c06.reader-panic@{}", short_loc(&loc)), format!("writing and re-reading the Game read from {text:?} panicked: {m}"))),
            }
            None
        }
        Ok(Err(_)) => {
            l.feat("hostile_rejected");
            if let Some(w) = widths {
                if w.iter().any(|x| *x != 8) {
                    l.feat("bad_rank_width_rejected");
                }
            }
            None
        }
    }
}

fn shrink_rank(r: &str) -> String {
    // width - 1
    let mut chars: Vec<char> = r.chars().collect();
    match chars.pop() {
        Some(c) if c.is_ascii_digit() && c > '1' => chars.push(((c as u8) - 1) as char),
        _ => {}
    }
    chars.into_iter().collect()
}

fn grow_rank(r: &str, rng: &mut Rng) -> String {
    let mut s = r.to_string();
    if rng.chance(1, 2) {
        s.push('1');
    } else {
        s.push(*rng.pick(&['p', 'P', 'n', 'Q', 'r']));
    }
    s
}

pub fn mutate(valid: &str, rng: &mut Rng, l: &mut Local) -> String {
    let fields: Vec<String> = valid.split(' ').map(|s| s.to_string()).collect();
    let mut f = fields.clone();
    let mut kind = rng.below(22);
    // structure-aware mutations need the six fields and eight ranks; anything else (e.g. a text
    // that was already corrupted once) only gets the byte-level ones
    let structured = f.len() >= 6 && f[0].split('/').count() == 8;
    if !structured && !(13..=18).contains(&kind) {
        kind = 13 + rng.below(6);
    }
    match kind {
        0 | 1 | 2 => {
            // widths shifted between two ranks, total kept at 64
            l.feat("mut_width_shift_total_64");
            let mut ranks: Vec<String> = f[0].split('/').map(|s| s.to_string()).collect();
            let a = rng.below(8) as usize;
            let mut b = rng.below(8) as usize;
            if a == b {
                b = (b + 1) % 8;
            }
            let sa = shrink_rank(&ranks[a]);
            if sa.is_empty() {
                ranks[a] = "7".into();
            } else {
                ranks[a] = sa;
            }
            ranks[b] = grow_rank(&ranks[b], rng);
            f[0] = ranks.join("/");
        }
        3 | 4 => {
            l.feat("mut_total_not_64");
            let mut ranks: Vec<String> = f[0].split('/').map(|s| s.to_string()).collect();
            let a = rng.below(8) as usize;
            if rng.chance(1, 2) {
                ranks[a] = grow_rank(&ranks[a], rng);
                if rng.chance(1, 3) {
                    ranks[a] = format!("44p");
                }
            } else {
                let s = shrink_rank(&ranks[a]);
                ranks[a] = if s.is_empty() { "7".into() } else { s };
            }
            f[0] = ranks.join("/");
        }
        5 => {
            l.feat("mut_rank_count");
            let mut ranks: Vec<String> = f[0].split('/').map(|s| s.to_string()).collect();
            if rng.chance(1, 2) {
                ranks.pop();
            } else {
                ranks.push("8".into());
            }
            f[0] = ranks.join("/");
        }
        6 | 7 => {
            l.feat("mut_counters");
            let vals = ["0", "1", "4294967295", "4294967296", "2147483648", "2147483649", "99999999999999999999", "-1", "-0", "+5", "x", "1.5", "", "007", "4294967294"];
            if f.len() >= 6 {
                if rng.chance(1, 2) {
                    f[5] = rng.pick(&vals).to_string();
                }
                if rng.chance(1, 2) {
                    f[4] = rng.pick(&vals).to_string();
                }
            }
        }
        8 => {
            l.feat("mut_missing_fields");
            let keep = rng.below(f.len() as u64) as usize;
            f.truncate(keep);
        }
        9 => {
            l.feat("mut_extra_fields");
            f.push(rng.pick(&["1", "w", "-", "extra", "0 0 0"]).to_string());
        }
        10 => {
            l.feat("mut_separators");
            let seps: [&str; 6] = ["  ", "\t", " \t ", "", "\n", ","];
            let s = f.join(*rng.pick(&seps[..]));
            return s;
        }
        11 => {
            l.feat("mut_digits_0_9");
            let d: [&str; 4] = ["0", "9", "10", "00"];
            let rep: &str = *rng.pick(&d[..]);
            f[0] = f[0].replacen(|c: char| c.is_ascii_digit(), rep, 1);
        }
        12 => {
            l.feat("mut_side_castling_ep");
            match rng.below(3) {
                0 => f[1] = rng.pick(&["W", "white", "x", "", "wb"]).to_string(),
                1 => {
                    if f.len() > 2 {
                        f[2] = rng.pick(&["KK", "KQkqK", "kqKQ", "AHah", "--", "Kx", "QQQQQQQQQQQQQQQQQQQQQQQQQQQQQQQ"]).to_string()
                    }
                }
                _ => {
                    if f.len() > 3 {
                        f[3] = rng.pick(&["e9", "i3", "e", "3e", "e33", "a0", "--", "E3"]).to_string()
                    }
                }
            }
        }
        13 => {
            l.feat("mut_non_ascii");
            let extras = ["é", "♟", "８", "\u{0}", "\u{feff}", "𝔸", "\u{200b}"];
            let mut s = valid.to_string();
            let mut pos = rng.below(s.len() as u64 + 1) as usize;
            while !s.is_char_boundary(pos) {
                pos -= 1;
            }
            let e: &str = *rng.pick(&extras[..]);
            s.insert_str(pos, e);
            return s;
        }
        14 => {
            l.feat("mut_random_string");
            let n = rng.below(80) as usize;
            let alphabet: Vec<char> = "rnbqkpRNBQKP12345678/ wb-KQkqabcdefgh09 \t".chars().collect();
            return (0..n).map(|_| *rng.pick(&alphabet)).collect();
        }
        15 => {
            l.feat("mut_random_unicode");
            let n = rng.below(40) as usize;
            return (0..n).filter_map(|_| char::from_u32(rng.below(0x3000) as u32)).collect();
        }
        16 => {
            l.feat("mut_truncate");
            let mut cut = rng.below(valid.len() as u64 + 1) as usize;
            while !valid.is_char_boundary(cut) {
                cut -= 1;
            }
            return valid[..cut].to_string();
        }
        17 => {
            l.feat("mut_char_flip");
            let mut chars: Vec<char> = valid.chars().collect();
            if !chars.is_empty() {
                let i = rng.below(chars.len() as u64) as usize;
                let alphabet: Vec<char> = "rnbqkpRNBQKP0123456789/ wb-".chars().collect();
                chars[i] = *rng.pick(&alphabet);
            }
            return chars.into_iter().collect();
        }
        18 => {
            l.feat("mut_empty_or_blank");
            let blanks: [&str; 7] = ["", " ", "/", "////////", "8/8/8/8/8/8/8/8", "8/8/8/8/8/8/8/8 w", "8/8/8/8/8/8/8/8 w - -"];
            return rng.pick(&blanks[..]).to_string();
        }
        19 => {
            l.feat("mut_long_rank");
            let mut ranks: Vec<String> = f[0].split('/').map(|s| s.to_string()).collect();
            let a = rng.below(8) as usize;
            ranks[a] = "8".repeat(1 + rng.below(40) as usize);
            f[0] = ranks.join("/");
        }
        _ => {
            l.feat("mut_none_valid");
        }
    }
    f.join(" ")
}

pub fn run(args: &Args, seed: u64, tier: &str, report: &Report) -> String {
    let rule = "(a) live legal positions from DFS/playouts/synthesis: write->read->compare every field and key; canonical text under each en-passant convention: read->fields, key, write->same text; (b,c) grammar-aware and byte-level corruptions of valid FENs and random strings: from_fen must return Ok or Err, and Err whenever the 8-rank placement has a rank not describing 8 squares; distinct = distinct texts fed to the reader";
    let thorough = tier == "thorough";
    if let Some(t) = args.get("--text") {
        let mut l = Local::default();
        l.distinct.insert(1);
        l.distinct.insert(2);
        if let Some((sig, what)) = check_hostile(t, &mut l) {
            report.violation(Violation { monitor: "c06".into(), signature: sig, what, replay_args: vec![], detail: J::Null });
        }
        report.merge_local(&mut l);
        return rule.into();
    }
    if let Some(fen) = args.get("--fen") {
        let moves = args.get("--moves").unwrap_or("");
        match rebuild(fen, moves) {
            Ok((g, p)) => {
                let mut l = Local::default();
                l.distinct.insert(1);
                l.distinct.insert(2);
                if let Some((sig, what)) = check_roundtrip(&g, &p, &mut l) {
                    report.violation(Violation { monitor: "c06".into(), signature: sig, what, replay_args: vec![], detail: J::Null });
                }
                report.merge_local(&mut l);
            }
            Err(e) => report.note(format!("replay could not be rebuilt: {e}")),
        }
        return rule.into();
    }
    let only_hostile = args.flag("--hostile-only");
    let scale = args.u64("--scale", 1);
    let cfg = StreamCfg {
        playouts: if only_hostile { 0 } else if thorough { 80_000 } else { 3_000 } * scale,
        playout_len: 120,
        synth: if only_hostile { 0 } else if thorough { 5_000_000 } else { 200_000 } * scale,
        synth_ep: if only_hostile { 0 } else if thorough { 500_000 } else { 30_000 } * scale,
        wild: true,
        focus: false,
        dfs_depth: if only_hostile { 0 } else { 2 },
        three_men: thorough && !only_hostile,
    };
    let hostile: u64 = if thorough { 60_000_000 } else { 2_500_000 } * scale;
    let roots = corpus_roots();
    run_shards(16, 32, |shard| {
        let mut l = Local::default();
        let mut n = 0u64;
        drive(seed, shard, 16, &cfg, &mut l, |g, p, trail, l| {
            n += 1;
            if p.hmc > 0 {
                l.feat("nonzero_halfmove_clock");
            }
            if p.fmn > 1 {
                l.feat("move_number_above_1");
            }
            l.feat("legal_positions_round_tripped");
            l.distinct.insert(hash_str(&format!("{}|{}", trail.root_fen, trail.moves.join(" "))));
            if let Some((sig, what)) = check_roundtrip(g, p, l) {
                report.violation(Violation { monitor: "c06".into(), signature: sig, what, replay_args: trail.replay_args("c06"), detail: J::Null });
                return false;
            }
            if n % 20_000 == 0 {
                report.merge_local(l);
            }
            true
        });
        // legal positions (per refchess) whose FEN the reader refused, or on which it panicked, while the streams were built
        let rejected: Vec<String> = l.samples.iter().filter_map(|x| x.as_str().and_then(|t| t.strip_prefix("rejected-by-reader:")).map(|t| t.to_string())).collect();
        l.samples.retain(|x| !x.as_str().map(|t| t.starts_with("rejected-by-reader:")).unwrap_or(false));
        for fen in rejected {
            // (texts whose en-passant field names a target nobody can capture on are left out: a stricter reader may refuse those)
            let strict_ok = Pos::from_fen(&fen).map(|p| p.ep_field(EpConv::Legal) == p.ep_field(EpConv::Always)).unwrap_or(false);
            if strict_ok {
                report.violation(Violation { monitor: "c06".into(), signature: "c06.read.rejected".into(), what: format!("the FEN of a legal position is not read: '{fen}' ({:?})", guarded(|| Game::from_fen(&fen).map(|_| ())).map(|r| r.map_err(|e| e.to_string()))), replay_args: vec![], detail: J::Null });
            }
        }
        // hostile text
        let mut rng = Rng::new(seed, 7000 + shard as u64);
        let mut valid_pool: Vec<String> = roots.iter().map(|p| p.to_fen(EpConv::Adjacent)).collect();
        for i in 0..hostile / 16 {
            if i % 64 == 0 {
                // refresh the pool with a position from a playout
                let mut p = rng.pick(&roots).clone();
                for _ in 0..rng.below(40) {
                    let legal = p.legal_moves();
                    if legal.is_empty() {
                        break;
                    }
                    p = p.make(pick_move(&p, &legal, &mut rng));
                }
                let k = rng.below(valid_pool.len() as u64) as usize;
                valid_pool[k] = p.to_fen(EpConv::Adjacent);
            }
            let base = rng.pick(&valid_pool).clone();
            let mut text = mutate(&base, &mut rng, &mut l);
            if rng.chance(1, 6) {
                text = mutate(&text.clone(), &mut rng, &mut l);
            }
            l.distinct.insert(hash_str(&text));
            if i % 400_000 == 3 && l.samples.len() < 3 {
                l.samples.push(js(&text));
            }
            if let Some((sig, what)) = check_hostile(&text, &mut l) {
                report.violation(Violation { monitor: "c06".into(), signature: sig, what, replay_args: vec!["c06".into(), "--text".into(), text.clone()], detail: J::Null });
            }
            if i % 50_000 == 0 {
                report.merge_local(&mut l);
                if report.violations_total() > 5_000 {
                    break;
                }
            }
        }
        report.merge_local(&mut l);
    });
    rule.into()
}
