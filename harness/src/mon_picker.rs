//! C10 — the staged move picker yields every legal move exactly once.

use crate::bridge::*;
use crate::chess::game::Game;
use crate::chess::moves::Move;
use crate::engine::options::EngineOptions;
use crate::engine::search::move_picker::MovePicker;
use crate::engine::search::time_control::TimeStrategy;
use crate::engine::search::{PersistentState, SearchContext, SearchRestrictions, TimeControl};
use crate::gen::*;
use crate::refchess::*;
use crate::stream::*;
use crate::util::*;

#[derive(Clone, Debug)]
pub struct PickCfg {
    pub hash: Option<Mv>,
    pub killers: Vec<Mv>, // pushed in order through try_push
    pub counter: Option<Mv>,
    pub history: Vec<(Mv, u8)>,
    pub ply: u8,
}

fn mv_code(m: &Mv) -> String {
    // from-to-promo + flag letters, enough to rebuild the exact Move
    let mut s = m.uci();
    s.push(':');
    if m.capture {
        s.push('x');
    }
    if m.ep {
        s.push('e');
    }
    if m.castle {
        s.push('c');
    }
    s
}

fn parse_mv_code(t: &str) -> Option<Mv> {
    let (u, fl) = t.split_once(':')?;
    let from = parse_sq(u.get(0..2)?)?;
    let to = parse_sq(u.get(2..4)?)?;
    let promo = match u.get(4..5) {
        Some("q") => Some(Kind::Q),
        Some("r") => Some(Kind::R),
        Some("b") => Some(Kind::B),
        Some("n") => Some(Kind::N),
        _ => None,
    };
    Some(Mv { from, to, promo, capture: fl.contains('x'), ep: fl.contains('e'), castle: fl.contains('c') })
}

impl PickCfg {
    fn encode(&self) -> String {
        format!(
            "hash={};killers={};counter={};history={};ply={}",
            self.hash.as_ref().map(mv_code).unwrap_or_default(),
            self.killers.iter().map(mv_code).collect::<Vec<_>>().join(","),
            self.counter.as_ref().map(mv_code).unwrap_or_default(),
            self.history.iter().map(|(m, d)| format!("{}@{}", mv_code(m), d)).collect::<Vec<_>>().join(","),
            self.ply
        )
    }
    fn decode(t: &str) -> PickCfg {
        let mut c = PickCfg { hash: None, killers: vec![], counter: None, history: vec![], ply: 0 };
        for part in t.split(';') {
            let Some((k, v)) = part.split_once('=') else { continue };
            match k {
                "hash" => c.hash = parse_mv_code(v),
                "killers" => c.killers = v.split(',').filter_map(parse_mv_code).collect(),
                "counter" => c.counter = parse_mv_code(v),
                "history" => {
                    c.history = v
                        .split(',')
                        .filter_map(|x| {
                            let (m, d) = x.split_once('@')?;
                            Some((parse_mv_code(m)?, d.parse().ok()?))
                        })
                        .collect()
                }
                "ply" => c.ply = v.parse().unwrap_or(0),
                _ => {}
            }
        }
        c
    }
}

/// Runs the picker under a configuration; returns the yielded stream (engine labels).
fn run_picker(g: &Game, ps: &mut PersistentState, cfg: &PickCfg, loud: bool) -> Result<(Vec<Mv>, bool), (String, String)> {
    let options = EngineOptions::default();
    let (mut ts, _c) = TimeStrategy::new(g, &TimeControl::Infinite, &options);
    let restrictions = SearchRestrictions::default();
    ps.history_table.reset();
    guarded(|| {
        let mut ctx = SearchContext::new(ps, &mut ts, &options, &restrictions);
        for k in cfg.killers.iter() {
            ctx.killer_moves.try_push(cfg.ply, mv_from_ref(*k));
        }
        if let Some(c) = cfg.counter {
            if let Some(prev) = g.history.last().and_then(|h| h.mv) {
                ctx.countermove_table.set(g.player, prev, mv_from_ref(c));
            }
        }
        for (m, d) in cfg.history.iter() {
            ctx.history_table.add_bonus_for(g.player, mv_from_ref(*m), *d);
        }
        let mut picker = if loud { MovePicker::new_loud() } else { MovePicker::new(cfg.hash.map(mv_from_ref)) };
        let mut out = vec![];
        let mut capped = false;
        loop {
            match picker.next(g, &ctx, cfg.ply) {
                Some(m) => out.push(mv_to_ref(m)),
                None => break,
            }
            if out.len() >= 512 {
                capped = true;
                break;
            }
        }
        (out, capped)
    })
}

fn judge(p: &Pos, stream: &[Mv], capped: bool, loud: bool) -> Option<(String, String)> {
    let legal = p.legal_moves();
    if capped {
        return Some(("c10.unbounded-stream".into(), "more than 512 moves yielded".into()));
    }
    let mut sorted = stream.to_vec();
    sorted.sort();
    for w in sorted.windows(2) {
        if w[0] == w[1] {
            return Some((format!("c10.{}duplicate", if loud { "loud." } else { "" }), format!("{} yielded twice", w[0].uci())));
        }
    }
    for m in stream {
        if !legal.contains(m) {
            return Some((format!("c10.{}not-legal", if loud { "loud." } else { "" }), format!("{} yielded but is not a legal move (or is mislabelled)", mv_code(m))));
        }
    }
    if loud {
        for m in legal.iter() {
            let must = m.capture || m.promo == Some(Kind::Q);
            if must && !stream.contains(m) {
                return Some(("c10.loud.missing".into(), format!("captures-only stream lacks {}", mv_code(m))));
            }
        }
    } else {
        for m in legal.iter() {
            if !stream.contains(m) {
                return Some(("c10.missing".into(), format!("{} never yielded", mv_code(m))));
            }
        }
    }
    None
}

fn random_elsewhere_move(rng: &mut Rng) -> Mv {
    let from = rng.below(64) as Sq;
    let mut to = rng.below(64) as Sq;
    if to == from {
        to = (to + 1) % 64;
    }
    let kind = rng.below(8);
    Mv {
        from,
        to,
        promo: if kind == 0 { Some(*rng.pick(&PROMOS)) } else { None },
        capture: kind == 1 || kind == 0 && rng.chance(1, 2),
        ep: false,
        castle: false,
    }
}

fn make_cfg(p: &Pos, legal: &[Mv], has_prev: bool, rng: &mut Rng, l: &mut Local) -> PickCfg {
    let quiets: Vec<Mv> = legal.iter().copied().filter(|m| !m.capture && m.promo != Some(Kind::Q)).collect();
    let caps: Vec<Mv> = legal.iter().copied().filter(|m| m.capture).collect();
    let mut pick_any = |rng: &mut Rng, l: &mut Local| -> Mv {
        match rng.below(10) {
            0..=4 if !quiets.is_empty() => {
                l.feat("remembered_legal_quiet");
                *rng.pick(&quiets)
            }
            5..=6 if !caps.is_empty() => {
                l.feat("remembered_legal_capture");
                *rng.pick(&caps)
            }
            7 => {
                // an under-promotion or castle if there is one
                let special: Vec<Mv> = legal.iter().copied().filter(|m| m.castle || (m.promo.is_some() && m.promo != Some(Kind::Q))).collect();
                if special.is_empty() {
                    random_elsewhere_move(rng)
                } else {
                    l.feat("remembered_underpromotion_or_castle");
                    *rng.pick(&special)
                }
            }
            _ => {
                l.feat("remembered_not_legal_here");
                random_elsewhere_move(rng)
            }
        }
    };
    let hash = if !legal.is_empty() && rng.chance(3, 4) { Some(*rng.pick(legal)) } else { None };
    let mut killers = vec![];
    for _ in 0..rng.below(4) {
        killers.push(pick_any(rng, l));
    }
    let mut counter = if has_prev && rng.chance(2, 3) { Some(pick_any(rng, l)) } else { None };
    // forced coincidences
    match rng.below(8) {
        0 => {
            if let Some(h) = hash {
                killers.push(h);
                l.feat("coincidence_hash_eq_killer");
            }
        }
        1 => {
            if has_prev {
                if let Some(k) = killers.first().copied() {
                    counter = Some(k);
                    l.feat("coincidence_counter_eq_killer");
                }
            }
        }
        2 => {
            if has_prev {
                if let Some(h) = hash {
                    counter = Some(h);
                    l.feat("coincidence_counter_eq_hash");
                }
            }
        }
        _ => {}
    }
    let mut history = vec![];
    for _ in 0..rng.below(6) {
        if !legal.is_empty() {
            history.push((*rng.pick(legal), 1 + rng.below(40) as u8));
        }
    }
    let _ = p;
    PickCfg { hash, killers, counter, history, ply: if rng.chance(1, 8) { 254 } else { rng.below(255) as u8 } }
}

pub fn run(args: &Args, seed: u64, tier: &str, report: &Report) -> String {
    let rule = "positions (playouts with a real previous move, DFS, synthesised) x random hash move / killer pairs / counter move / history scores / ply, with forced coincidences; the full stream and the captures-only stream are compared with the reference's legal moves; distinct = distinct (FEN, configuration)";
    if let Some(fen) = args.get("--fen") {
        let moves = args.get("--moves").unwrap_or("");
        let cfg = PickCfg::decode(args.get("--cfg").unwrap_or(""));
        let loud = args.flag("--loud");
        match rebuild(fen, moves) {
            Ok((g, p)) => {
                let mut ps = PersistentState::new(1);
                let mut l = Local::default();
                l.evaluations = 1;
                l.distinct.insert(1);
                l.distinct.insert(2);
                match run_picker(&g, &mut ps, &cfg, loud) {
                    Ok((stream, capped)) => {
                        if let Some((sig, what)) = judge(&p, &stream, capped, loud) {
                            report.violation(Violation { monitor: "c10".into(), signature: sig, what, replay_args: vec![], detail: J::Null });
                        }
                    }
                    Err((m, loc)) => report.violation(Violation { monitor: "c10".into(), signature: format!("c10.panic@{}", short_loc(&loc)), what: format!("{m} at {loc}"), replay_args: vec![], detail: J::Null }),
                }
                report.merge_local(&mut l);
            }
            Err(e) => report.note(format!("replay could not be rebuilt: {e}")),
        }
        return rule.to_string();
    }
    let thorough = tier == "thorough";
    let scale = args.u64("--scale", 1);
    let shards = 16usize;
    let cfg = StreamCfg {
        playouts: if thorough { 150_000 } else { 2_500 } * scale,
        playout_len: 100,
        synth: if thorough { 2_000_000 } else { 40_000 } * scale,
        synth_ep: if thorough { 300_000 } else { 8_000 } * scale,
        wild: true,
        focus: true,
        dfs_depth: if thorough { 3 } else { 2 },
        three_men: thorough,
    };
    let per_pos = if thorough { 6 } else { 4 };
    run_shards(shards, 64, |shard| {
        let mut l = Local::default();
        let mut ps = PersistentState::new(1);
        let mut rng = Rng::new(seed, 3000 + shard as u64);
        let mut n = 0u64;
        drive(seed, shard, shards, &cfg, &mut l, |g, p, trail, l| {
            let legal = p.legal_moves();
            let has_prev = g.history.last().and_then(|h| h.mv).is_some();
            if p.in_check(p.stm) {
                l.feat("position_in_check");
            }
            if legal.iter().any(|m| m.ep) {
                l.feat("position_with_ep_capture");
            }
            if has_prev {
                l.feat("position_with_previous_move");
            }
            for i in 0..per_pos {
                let loud = i == per_pos - 1;
                let c = if loud {
                    PickCfg { hash: None, killers: vec![], counter: None, history: vec![], ply: rng.below(255) as u8 }
                } else {
                    make_cfg(p, &legal, has_prev, &mut rng, l)
                };
                l.evaluations += 1;
                n += 1;
                l.feat(if loud { "loud_streams" } else { "full_streams" });
                let enc = c.encode();
                let res = run_picker(g, &mut ps, &c, loud);
                let mut replay = trail.replay_args("c10");
                replay.push("--cfg".into());
                replay.push(enc.clone());
                if loud {
                    replay.push("--loud".into());
                }
                match res {
                    Ok((stream, capped)) => {
                        if !loud && !stream.is_empty() {
                            l.distinct.insert(hash_str(&format!("{}|{}|{}", trail.root_fen, trail.moves.join(" "), enc)));
                        }
                        if !loud && stream.iter().any(|m| m.capture) && stream.iter().rev().take_while(|m| !m.capture).count() > 0 {
                            // some capture came after... (bad captures are interleaved) just a coverage hint
                        }
                        if let Some((sig, what)) = judge(p, &stream, capped, loud) {
                            report.violation(Violation {
                                monitor: "c10".into(),
                                signature: sig,
                                what: format!("{what}; stream = {}", stream.iter().map(mv_code).collect::<Vec<_>>().join(" ")),
                                replay_args: replay,
                                detail: jo(vec![("fen", js(p.to_fen(EpConv::Always))), ("cfg", js(&enc))]),
                            });
                            return false;
                        }
                        if n % 100_000 == 7 && l.samples.len() < 2 {
                            l.samples.push(jo(vec![("fen", js(p.to_fen(EpConv::Always))), ("cfg", js(&enc)), ("stream_len", J::U(stream.len() as u64))]));
                        }
                    }
                    Err((m, loc)) => {
                        report.violation(Violation {
                            monitor: "c10".into(),
                            signature: format!("c10.panic@{}", short_loc(&loc)),
                            what: format!("picker panicked: {m} at {loc}"),
                            replay_args: replay,
                            detail: jo(vec![("fen", js(p.to_fen(EpConv::Always))), ("cfg", js(&enc))]),
                        });
                        return false;
                    }
                }
            }
            if n % 20_000 < per_pos as u64 {
                report.merge_local(l);
            }
            true
        });
        report.merge_local(&mut l);
    });
    rule.to_string()
}
