//! Position-level monitors: C16 (evaluation), C18 (SAN), C20 (SEE).

use crate::bridge::*;
use crate::chess::game::Game;
use crate::chess::san;
use crate::engine::eval::{self, Eval, PhasedEval};
use crate::engine::see;
use crate::gen::*;
use crate::refchess::*;
use crate::stream::*;
use crate::util::*;

// =========================================================================================
// C18 — SAN output identifies the move

fn strip_suffix(s: &str) -> &str {
    s.trim_end_matches(|c| c == '+' || c == '#')
}

pub fn check_c18(g: &Game, p: &Pos, l: &mut Local) -> Option<(String, String)> {
    let legal = p.legal_moves();
    let mut texts: Vec<(String, Mv)> = vec![];
    for m in legal.iter() {
        let Some(e) = find_engine_move(g, *m) else { continue };
        l.evaluations += 1;
        let pc = p.b[m.from as usize].unwrap();
        let text = match guarded(|| san::format_move(g, e)) {
            Ok(t) => t,
            Err((msg, loc)) => return Some((format!("c18.writer-panic@{}", short_loc(&loc)), format!("format_move({}) panicked: {msg}", m.uci()))),
        };
        let want = p.san(*m);
        // (2) body equals the standard text
        if strip_suffix(&text) != strip_suffix(&want) {
            let others = legal.iter().filter(|o| o.to == m.to && o.from != m.from && p.b[o.from as usize].map(|x| x.k) == Some(pc.k)).count();
            let sig = if others > 0 && pc.k != Kind::P { "c18.writer.disambiguation" } else { "c18.writer.body" };
            return Some((sig.into(), format!("{} written '{}', standard notation '{}'", m.uci(), text, want)));
        }
        // (3) suffix present iff the move gives check; '#' only on mate
        let gives_check = want.ends_with('+') || want.ends_with('#');
        let has_suffix = text.ends_with('+') || text.ends_with('#');
        if gives_check {
            l.feat("moves_giving_check");
            if m.castle {
                l.feat("castling_giving_check");
            }
        }
        if gives_check != has_suffix {
            let sig = if m.castle { "c18.writer.suffix.castle" } else { "c18.writer.suffix" };
            return Some((sig.into(), format!("{} written '{}' but gives_check={}", m.uci(), text, gives_check)));
        }
        if text.ends_with('#') && !want.ends_with('#') {
            return Some(("c18.writer.suffix.false-mate".into(), format!("{} written '{}' but it is not mate", m.uci(), text)));
        }
        // features
        if m.promo.is_some() && m.capture {
            l.feat("capturing_promotions");
        }
        if pc.k != Kind::P && pc.k != Kind::K {
            let others: Vec<&Mv> = legal.iter().filter(|o| o.to == m.to && o.from != m.from && p.b[o.from as usize].map(|x| x.k) == Some(pc.k)).collect();
            if !others.is_empty() {
                l.feat("ambiguous_piece_moves");
                let sf = others.iter().any(|o| file_of(o.from) == file_of(m.from));
                let sr = others.iter().any(|o| rank_of(o.from) == rank_of(m.from));
                l.feat(match (sf, sr) {
                    (false, false) => "ambiguity_neither_file_nor_rank_shared",
                    (true, false) => "ambiguity_file_shared",
                    (false, true) => "ambiguity_rank_shared",
                    (true, true) => "ambiguity_both_shared",
                });
            }
        }
        if pc.k == Kind::P && m.capture {
            if legal.iter().any(|o| o.to == m.to && o.from != m.from && file_of(o.from) == file_of(m.from)) {
                l.feat("pawn_capture_with_other_capturer_on_same_file");
            }
        }
        // (4) reading the text back returns the move
        match guarded(|| san::parse_move(g, &text)) {
            Ok(Ok(back)) => {
                if mv_to_ref(back) != mv_to_ref(e) {
                    return Some(("c18.reader.wrong-move".into(), format!("'{}' written for {} reads back as {}", text, m.uci(), mv_to_ref(back).uci())));
                }
            }
            Ok(Err(err)) => return Some(("c18.reader.error".into(), format!("'{}' written for {} is rejected by the reader: {err:?}", text, m.uci()))),
            Err((msg, loc)) => {
                let class = if pc.k == Kind::P && m.capture && m.promo.is_some() {
                    "capture-promotion"
                } else if pc.k == Kind::P && m.capture {
                    "pawn-capture"
                } else {
                    "other"
                };
                return Some((format!("c18.reader.panic.{class}"), format!("reading '{}' (written for {}) panicked: {msg} at {}", text, m.uci(), short_loc(&loc))));
            }
        }
        texts.push((text, *m));
    }
    // (1) no two legal moves share a text
    texts.sort();
    for w in texts.windows(2) {
        if w[0].0 == w[1].0 {
            return Some(("c18.writer.same-text".into(), format!("moves {} and {} are both written '{}'", w[0].1.uci(), w[1].1.uci(), w[0].0)));
        }
    }
    None
}

// =========================================================================================
// C20 — SEE at threshold zero

pub fn check_c20(g: &Game, p: &Pos, l: &mut Local) -> Option<(String, String)> {
    let legal = p.legal_moves();
    let mp = p.mirror();
    let mg = Game::from_fen(&mp.to_fen(EpConv::Always)).ok()?;
    for m in legal.iter().filter(|m| m.capture && !m.ep) {
        let Some(e) = find_engine_move(g, *m) else { continue };
        l.evaluations += 1;
        let verdict = match guarded(|| see::see(g, e, Eval(0))) {
            Ok(v) => v,
            Err((msg, loc)) => return Some((format!("c20.panic@{}", short_loc(&loc)), format!("see({}) panicked: {msg}", m.uci()))),
        };
        let mover = p.b[m.from as usize].unwrap().k;
        let victim = p.b[m.to as usize].unwrap().k;
        if m.promo.is_some() {
            l.feat("capturing_promotions");
        }
        // (a) colour symmetry
        let mm = mirror_mv(*m);
        if let Some(me) = find_engine_move(&mg, mm) {
            let mv = see::see(&mg, me, Eval(0));
            if mv != verdict {
                return Some(("c20.mirror".into(), format!("see({}) = {verdict} but {} on the colour-mirrored position = {mv}", m.uci(), mm.uci())));
            }
        }
        // (b) undefended target
        let after = p.make(*m);
        let defended = after.attacked(m.to, after.stm);
        if !defended {
            l.feat("target_undefended");
            if !verdict {
                return Some(("c20.undefended".into(), format!("see({}) = false although nothing can recapture on {}", m.uci(), sq_name(m.to))));
            }
        }
        // (c) captured piece worth at least the capturing one
        if see_value(victim) >= see_value(mover) && m.promo.is_none() {
            l.feat("victim_ge_attacker");
            if !verdict {
                return Some(("c20.victim-ge-attacker".into(), format!("see({}) = false although {:?} takes {:?}", m.uci(), mover, victim)));
            }
        }
        // (d) independent swap list, when the choice among equal attackers cannot matter.
        // Exchanges on the back ranks with pawns among the recapturers are skipped: a
        // recapturing pawn would promote, which a plain swap list does not model.
        let back = rank_of(m.to) == 0 || rank_of(m.to) == 7;
        let pawn_recapturer = (0..64u8).any(|s| matches!(after.b[s as usize], Some(pc) if pc.k == Kind::P) && after.piece_attacks(s, m.to));
        if back && pawn_recapturer {
            l.feat("swaplist_skipped_promoting_recapture");
            continue;
        }
        match see_exact(p, *m) {
            SeeVerdict::Agreed(w) => {
                l.feat("swaplist_order_irrelevant");
                if defended {
                    l.feat("swaplist_defended_target");
                    if has_xray(p, *m) {
                        l.feat("swaplist_with_xray_attacker");
                    }
                }
                if w != verdict {
                    return Some(("c20.swaplist".into(), format!("see({}) = {verdict}, exact swap list = {w} under every tie-break order", m.uci())));
                }
            }
            SeeVerdict::Depends => l.feat("swaplist_skipped_order_matters"),
        }
    }
    None
}

/// Is there a slider lined up behind another attacker of the target square?
fn has_xray(p: &Pos, m: Mv) -> bool {
    let t = m.to;
    for s in 0..64u8 {
        let Some(pc) = p.b[s as usize] else { continue };
        if !matches!(pc.k, Kind::B | Kind::R | Kind::Q) || s == t {
            continue;
        }
        let (df, dr) = (file_of(t) - file_of(s), rank_of(t) - rank_of(s));
        let aligned = match pc.k {
            Kind::B => df.abs() == dr.abs(),
            Kind::R => df == 0 || dr == 0,
            _ => df == 0 || dr == 0 || df.abs() == dr.abs(),
        };
        if !aligned || p.piece_attacks(s, t) {
            continue;
        }
        // blocked: is the (single) blocker itself an attacker of t?
        let (sf, sr) = (df.signum(), dr.signum());
        let (mut f, mut r) = (file_of(s) + sf, rank_of(s) + sr);
        let mut blockers = vec![];
        while (f, r) != (file_of(t), rank_of(t)) {
            if p.b[sq(f, r) as usize].is_some() {
                blockers.push(sq(f, r));
            }
            f += sf;
            r += sr;
        }
        if blockers.len() == 1 && (p.piece_attacks(blockers[0], t) || blockers[0] == m.from) {
            return true;
        }
    }
    false
}

// =========================================================================================
// C16 — evaluation symmetric, bounded, a proper blend

const EVAL_BOUND: i16 = 31_900;

pub fn check_c16(g: &Game, p: &Pos, l: &mut Local) -> Option<(String, String)> {
    l.evaluations += 1;
    let fen = p.to_fen(EpConv::Always);
    let here = match guarded(|| eval::eval(g).0) {
        Ok(v) => v,
        Err((msg, loc)) => return Some((format!("c16.panic@{}", short_loc(&loc)), format!("eval panicked: {msg} ({fen})"))),
    };
    let phase = g.incremental_eval.phase_value;
    if phase > 24 {
        l.feat("phase_above_24");
    }
    if p.b.iter().flatten().filter(|pc| pc.k == Kind::Q).count() >= 6 {
        l.feat("six_or_more_queens");
    }
    // bounded
    if here.abs() >= EVAL_BOUND {
        return Some(("c16.bound".into(), format!("eval {here} outside the non-mate range ({fen})")));
    }
    // symmetry
    let mp = p.mirror();
    let mg = game_from_ref_state(&mp, EpConv::Always);
    match guarded(|| eval::eval(&mg).0) {
        Ok(m) => {
            if m != here {
                return Some(("c16.symmetry".into(), format!("eval {here} but colour-mirrored twin evaluates to {m} ({fen})")));
            }
        }
        Err((msg, loc)) => return Some((format!("c16.panic@{}", short_loc(&loc)), format!("eval of the mirrored position panicked: {msg} ({fen})"))),
    }
    // proper blend: between the pure middlegame and pure endgame assessments of this position
    let mut mgame = g.clone();
    mgame.incremental_eval.phase_value = 24;
    let mut egame = g.clone();
    egame.incremental_eval.phase_value = 0;
    let pure = guarded(|| (eval::eval(&mgame).0, eval::eval(&egame).0));
    if let Ok((a, b)) = pure {
        let (lo, hi) = (a.min(b), a.max(b));
        if here < lo || here > hi {
            let sig = if phase > 24 { "c16.blend.phase-above-max" } else { "c16.blend" };
            return Some((sig.into(), format!("eval {here} lies outside [{lo}, {hi}] spanned by the pure middlegame ({a}) and endgame ({b}) assessments; phase {phase} ({fen})")));
        }
    }
    None
}

/// The blend function itself: all (mg, eg, phase) in a cube, exhaustive, plus a sparse grid
/// and random triples over the full 16-bit range.
pub fn blend_cube(report: &Report, seed: u64, thorough: bool) {
    let r: i32 = if thorough { 400 } else { 120 };
    run_shards(16, 16, |shard| {
        let mut l = Local::default();
        let mut first: Option<(i16, i16, i16, i16)> = None;
        let mut bad = 0u64;
        let mut check = |mg: i16, eg: i16, ph: i16, l: &mut Local| {
            l.evaluations += 1;
            let v = guarded(|| PhasedEval::new(mg, eg).for_phase(ph).0);
            match v {
                Ok(v) => {
                    if v < mg.min(eg) || v > mg.max(eg) {
                        bad += 1;
                        if first.is_none() {
                            first = Some((mg, eg, ph, v));
                        }
                    }
                }
                Err(_) => {
                    bad += 1;
                    if first.is_none() {
                        first = Some((mg, eg, ph, i16::MIN));
                    }
                }
            }
        };
        let mut idx = 0i32;
        for mg in -r..=r {
            idx += 1;
            if idx as usize % 16 != shard {
                continue;
            }
            for eg in -r..=r {
                for ph in 0..=100i16 {
                    check(mg as i16, eg as i16, ph, &mut l);
                }
            }
            l.distinct.insert(mg as u64);
        }
        l.feat_n("blend_cube_triples", l.evaluations);
        // sparse grid + random over the full range
        let mut rng = Rng::new(seed, 6000 + shard as u64);
        let grid: [i16; 13] = [-32000, -20000, -8000, -3000, -1000, -100, 0, 100, 1000, 3000, 8000, 20000, 32000];
        for (i, mg) in grid.iter().enumerate() {
            if i % 16 != shard % 13 {
                continue;
            }
            for eg in grid.iter() {
                for ph in [0i16, 1, 12, 23, 24, 25, 30, 44, 60, 88, 100] {
                    // the packed representation holds mg + (eg << 16): stay inside what `new` can pack
                    check(*mg, *eg, ph, &mut l);
                }
            }
        }
        for _ in 0..(if thorough { 2_000_000 } else { 200_000 }) {
            let mg = rng.range(-32000, 32000) as i16;
            let eg = rng.range(-32000, 32000) as i16;
            let ph = rng.range(0, 100) as i16;
            check(mg, eg, ph, &mut l);
        }
        if let Some((mg, eg, ph, v)) = first {
            report.violation(Violation {
                monitor: "c16".into(),
                signature: if ph > 24 { "c16.blendfn.phase-above-max".into() } else { "c16.blendfn".into() },
                what: format!("PhasedEval::new({mg}, {eg}).for_phase({ph}) = {v}, outside [{}, {}] ({bad} such triples in this shard)", mg.min(eg), mg.max(eg)),
                replay_args: vec!["c16".into(), "--triple".into(), format!("{mg},{eg},{ph}")],
                detail: J::Null,
            });
        }
        report.merge_local(&mut l);
    });
    report.extra("x_blend_cube_half_width", J::I(r as i64));
}

// =========================================================================================

#[derive(Clone, Copy, PartialEq)]
pub enum PProp {
    C16,
    C18,
    C20,
}

pub fn run(prop: PProp, args: &Args, seed: u64, tier: &str, report: &Report) -> String {
    let (mode, rule) = match prop {
        PProp::C16 => ("c16", "positions from DFS, playouts and synthesised legal positions incl. extreme material: eval vs eval of the colour mirror, |eval| < 31900, eval between the engine's own pure-middlegame and pure-endgame assessments; blend function on an exhaustive (mg, eg, phase) cube plus grid and random triples; distinct = distinct FEN"),
        PProp::C18 => ("c18", "every legal move of positions from DFS, playouts and synthesised positions dense in like pieces: text vs reference SAN, suffix iff check, uniqueness within the position, parse(text) == move; distinct = distinct FEN with an ambiguous piece move, a capturing promotion or a checking castle"),
        PProp::C20 => ("c20", "every legal non-en-passant capture of positions from DFS, playouts and synthesised positions dense around one square: verdict vs mirrored twin, vs 'undefended', vs 'victim >= attacker', vs exact swap list under every tie order; distinct = distinct FEN having a capture"),
    };
    let thorough = tier == "thorough";
    let check = |g: &Game, p: &Pos, l: &mut Local| match prop {
        PProp::C16 => check_c16(g, p, l),
        PProp::C18 => check_c18(g, p, l),
        PProp::C20 => check_c20(g, p, l),
    };
    if let Some(t) = args.get("--triple") {
        let v: Vec<i16> = t.split(',').map(|x| x.parse().unwrap()).collect();
        let (mg, eg, ph) = (v[0], v[1], v[2]);
        let mut l = Local::default();
        l.evaluations = 1;
        l.distinct.insert(1);
        l.distinct.insert(2);
        let r = guarded(|| PhasedEval::new(mg, eg).for_phase(ph).0);
        let ok = matches!(r, Ok(x) if x >= mg.min(eg) && x <= mg.max(eg));
        if !ok {
            report.violation(Violation { monitor: "c16".into(), signature: if ph > 24 { "c16.blendfn.phase-above-max".into() } else { "c16.blendfn".into() }, what: format!("for_phase({mg},{eg},{ph}) = {r:?}"), replay_args: vec![], detail: J::Null });
        }
        report.merge_local(&mut l);
        return rule.into();
    }
    if let Some(fen) = args.get("--fen") {
        let moves = args.get("--moves").unwrap_or("");
        match rebuild(fen, moves) {
            Ok((g, p)) => {
                let mut l = Local::default();
                l.distinct.insert(1);
                l.distinct.insert(2);
                if let Some((sig, what)) = check(&g, &p, &mut l) {
                    report.violation(Violation { monitor: mode.into(), signature: sig, what, replay_args: vec![], detail: J::Null });
                }
                l.evaluations = l.evaluations.max(1);
                report.merge_local(&mut l);
            }
            Err(e) => report.note(format!("replay could not be rebuilt: {e}")),
        }
        return rule.into();
    }
    let scale = args.u64("--scale", 1);
    let cfg = match prop {
        PProp::C16 => StreamCfg { playouts: if thorough { 100_000 } else { 4_000 } * scale, playout_len: 100, synth: if thorough { 8_000_000 } else { 400_000 } * scale, synth_ep: 20_000, wild: true, focus: false, dfs_depth: if thorough { 3 } else { 2 }, three_men: thorough },
        PProp::C18 => StreamCfg { playouts: if thorough { 60_000 } else { 2_500 } * scale, playout_len: 100, synth: if thorough { 4_000_000 } else { 150_000 } * scale, synth_ep: 20_000, wild: true, focus: true, dfs_depth: if thorough { 3 } else { 2 }, three_men: thorough },
        PProp::C20 => StreamCfg { playouts: if thorough { 80_000 } else { 3_000 } * scale, playout_len: 100, synth: if thorough { 5_000_000 } else { 200_000 } * scale, synth_ep: 10_000, wild: true, focus: true, dfs_depth: if thorough { 3 } else { 2 }, three_men: thorough },
    };
    run_shards(16, 64, |shard| {
        let mut l = Local::default();
        let mut n = 0u64;
        drive(seed, shard, 16, &cfg, &mut l, |g, p, trail, l| {
            n += 1;
            let before_amb = l.features.get("ambiguous_piece_moves").copied().unwrap_or(0) + l.features.get("capturing_promotions").copied().unwrap_or(0) + l.features.get("castling_giving_check").copied().unwrap_or(0);
            let before_ev = l.evaluations;
            let r = check(g, p, l);
            let fen_key = hash_str(&format!("{}|{}", trail.root_fen, trail.moves.join(" ")));
            match prop {
                PProp::C16 => {
                    l.distinct.insert(fen_key);
                }
                PProp::C18 => {
                    let after = l.features.get("ambiguous_piece_moves").copied().unwrap_or(0) + l.features.get("capturing_promotions").copied().unwrap_or(0) + l.features.get("castling_giving_check").copied().unwrap_or(0);
                    if after > before_amb {
                        l.distinct.insert(fen_key);
                    }
                }
                PProp::C20 => {
                    if l.evaluations > before_ev {
                        l.distinct.insert(fen_key);
                    }
                }
            }
            if n % 30_000 == 5 && l.samples.len() < 2 {
                l.samples.push(js(p.to_fen(EpConv::Always)));
            }
            if n % 20_000 == 0 {
                report.merge_local(l);
            }
            if let Some((sig, what)) = r {
                report.violation(Violation { monitor: mode.into(), signature: sig, what: format!("{what} [{}]", p.to_fen(EpConv::Always)), replay_args: trail.replay_args(mode), detail: J::Null });
                return false;
            }
            true
        });
        report.merge_local(&mut l);
    });
    if prop == PProp::C16 {
        blend_cube(report, seed, thorough);
    }
    rule.into()
}
