//! C01 — legal move generation is exact.

use crate::bridge::*;
use crate::chess::game::Game;
use crate::gen::*;
use crate::refchess::*;
use crate::stream::*;
use crate::util::*;

pub struct C01Diff {
    pub signature: String,
    pub what: String,
    pub detail: J,
}

fn mv_label(m: &Mv) -> String {
    let mut s = m.uci();
    if m.capture {
        s.push_str("[x]");
    }
    if m.ep {
        s.push_str("[ep]");
    }
    if m.castle {
        s.push_str("[castle]");
    }
    s
}

fn class_of(p: &Pos, m: &Mv) -> &'static str {
    if m.ep {
        "ep"
    } else if m.castle {
        "castle"
    } else if m.promo.is_some() {
        "promotion"
    } else {
        match p.b[m.from as usize].map(|x| x.k) {
            Some(Kind::P) => "pawn",
            Some(Kind::N) => "knight",
            Some(Kind::B) => "bishop",
            Some(Kind::R) => "rook",
            Some(Kind::Q) => "queen",
            Some(Kind::K) => "king",
            None => "empty-source",
        }
    }
}

/// Compare the engine's move list and check verdict with the rules.
pub fn check_c01(g: &Game, p: &Pos) -> Option<C01Diff> {
    let r = guarded(|| {
        let list: Vec<Mv> = g.moves().iter().map(|m| mv_to_ref(*m)).collect();
        (list, g.is_king_in_check())
    });
    let (mut eng, eng_check) = match r {
        Ok(v) => v,
        Err((msg, loc)) => {
            return Some(C01Diff {
                signature: format!("c01.panic@{}", short_loc(&loc)),
                what: format!("move generation panicked: {msg} at {loc}"),
                detail: J::Null,
            })
        }
    };
    let mut want = p.legal_moves();
    eng.sort();
    want.sort();
    let ref_check = p.in_check(p.stm);
    let mut problems: Vec<String> = vec![];
    let mut sig = String::new();
    // duplicates
    for w in eng.windows(2) {
        if w[0] == w[1] {
            problems.push(format!("listed twice: {}", mv_label(&w[0])));
            if sig.is_empty() {
                sig = format!("c01.duplicate.{}", class_of(p, &w[0]));
            }
        }
    }
    let key = |m: &Mv| (m.from, m.to, m.promo);
    for w in want.iter() {
        match eng.iter().find(|e| key(e) == key(w)) {
            None => {
                problems.push(format!("missing: {}", mv_label(w)));
                if sig.is_empty() {
                    sig = format!("c01.missing.{}", class_of(p, w));
                }
            }
            Some(e) if e != w => {
                problems.push(format!(
                    "wrong label: engine {} vs rules {}",
                    mv_label(e),
                    mv_label(w)
                ));
                if sig.is_empty() {
                    sig = format!("c01.label.{}", class_of(p, w));
                }
            }
            _ => {}
        }
    }
    for e in eng.iter() {
        if !want.iter().any(|w| key(w) == key(e)) {
            problems.push(format!("illegal: {}", mv_label(e)));
            if sig.is_empty() {
                sig = format!("c01.illegal.{}", class_of(p, e));
            }
        }
    }
    if eng_check != ref_check {
        problems.push(format!(
            "check verdict: engine {eng_check}, rules {ref_check}"
        ));
        if sig.is_empty() {
            sig = "c01.checkverdict".to_string();
        }
    }
    if problems.is_empty() {
        return None;
    }
    Some(C01Diff {
        signature: sig,
        what: problems.join("; "),
        detail: jo(vec![
            ("fen", js(p.to_fen(EpConv::Always))),
            (
                "engine_moves",
                js(eng.iter().map(mv_label).collect::<Vec<_>>().join(" ")),
            ),
            (
                "rules_moves",
                js(want.iter().map(mv_label).collect::<Vec<_>>().join(" ")),
            ),
        ]),
    })
}

fn count_features(p: &Pos, l: &mut Local, fen: &str) {
    let legal = p.legal_moves();
    let ft = features(p, &legal);
    let mut nontrivial = false;
    for (on, name) in [
        (ft.in_check, "in_check"),
        (ft.double_check, "double_check"),
        (ft.has_ep_capture, "ep_capture_legal"),
        (ft.has_ep_target, "ep_target_set"),
        (ft.can_castle, "castling_legal"),
        (ft.has_promotion, "promotion_legal"),
        (ft.has_pin, "pinned_piece"),
    ] {
        if on {
            l.feat(name);
            nontrivial = true;
        }
    }
    if ft.has_ep_target && !ft.has_ep_capture && p.ep_field(EpConv::Adjacent).is_some() {
        l.feat("ep_pseudo_but_illegal");
    }
    if ft.in_check && ft.has_promotion {
        l.feat("promotion_while_in_check");
    }
    if legal.is_empty() {
        l.feat("terminal");
    }
    if nontrivial {
        l.distinct.insert(hash_str(fen));
    }
}

pub fn run_c01(args: &Args, seed: u64, tier: &str, report: &Report) -> String {
    let rule = "positions from DFS over corpus roots, biased playouts, synthesised legal positions and \
                complete hazard families; distinct = distinct FEN with >=1 hazard feature (check, double check, \
                pin, en-passant target, castling or promotion available)";
    // replay of a single case
    if let Some(fen) = args.get("--fen") {
        let moves = args.get("--moves").unwrap_or("");
        match rebuild(fen, moves) {
            Ok((g, p)) => {
                let mut l = Local::default();
                l.evaluations = 1;
                count_features(&p, &mut l, fen);
                l.distinct.insert(hash_str(fen));
                l.distinct.insert(hash_str(moves));
                l.samples.push(js(format!("{fen} moves {moves}")));
                if let Some(d) = check_c01(&g, &p) {
                    report.violation(Violation {
                        monitor: "c01".into(),
                        signature: d.signature,
                        what: d.what,
                        replay_args: vec!["c01".into(), "--fen".into(), fen.into(), "--moves".into(), moves.into()],
                        detail: d.detail,
                    });
                }
                report.merge_local(&mut l);
            }
            Err(e) => report.note(format!("replay could not be rebuilt: {e}")),
        }
        return rule.to_string();
    }

    let thorough = tier == "thorough";
    let scale = args.u64("--scale", 1);
    let shards = 16usize;
    let cfg = StreamCfg {
        playouts: if thorough { 150_000 } else { 3_000 } * scale,
        playout_len: 120,
        synth: if thorough { 8_000_000 } else { 250_000 } * scale,
        synth_ep: if thorough { 600_000 } else { 30_000 } * scale,
        wild: true,
        focus: false,
        // dealt by (root, first move), see stream.rs, so that depth 4 (~150 M positions) shards evenly
        dfs_depth: if thorough { 4 } else { 3 },
        three_men: thorough,
    };
    run_shards(shards, 64, |shard| {
        let mut l = Local::default();
        let mut n = 0u64;
        drive(seed, shard, shards, &cfg, &mut l, |g, p, trail, l| {
            l.evaluations += 1;
            n += 1;
            let fen = if trail.moves.is_empty() {
                trail.root_fen.clone()
            } else {
                p.to_fen(EpConv::Always)
            };
            count_features(p, l, &fen);
            l.feat(&format!("origin_{}", trail.origin));
            if n % 50_000 == 1 && l.samples.len() < 2 {
                l.samples.push(js(&fen));
            }
            let mut ok = true;
            if let Some(d) = check_c01(g, p) {
                report.violation(Violation {
                    monitor: "c01".into(),
                    signature: d.signature,
                    what: d.what,
                    replay_args: trail.replay_args("c01"),
                    detail: d.detail,
                });
                ok = false;
            }
            if n % 20_000 == 0 {
                report.merge_local(l);
            }
            ok
        });
        // hazard families, dealt by index
        let mut idx = 0u64;
        families(&mut |p: &Pos, fam: &'static str| {
            idx += 1;
            if idx % shards as u64 != shard as u64 {
                return;
            }
            l.evaluations += 1;
            l.feat(fam);
            let fen = p.to_fen(EpConv::Always);
            count_features(p, &mut l, &fen);
            let trail = Trail {
                root_fen: fen.clone(),
                moves: vec![],
                origin: "family",
            };
            match guarded(|| Game::from_fen(&fen)) {
                Ok(Ok(g)) => {
                    if let Some(d) = check_c01(&g, p) {
                        report.violation(Violation {
                            monitor: "c01".into(),
                            signature: d.signature,
                            what: d.what,
                            replay_args: trail.replay_args("c01"),
                            detail: d.detail,
                        });
                    }
                }
                _ => l.feat("fen_rejected_by_engine"),
            }
            if l.samples.len() < 3 && idx % 40_000 == shard as u64 {
                l.samples.push(js(&fen));
            }
        });
        report.merge_local(&mut l);
    });
    report.extra("families_exhaustive", J::B(true));
    rule.to_string()
}

fn put(p: &mut Pos, s: Sq, c: Color, k: Kind) -> bool {
    if p.b[s as usize].is_some() {
        return false;
    }
    p.b[s as usize] = Some(Pc { c, k });
    true
}

/// Place the king of `c` on the first square (scanning a fixed order) that keeps the
/// position legal; returns false if none.
fn place_safe_king(p: &mut Pos, c: Color) -> bool {
    for s in [63u8, 56, 7, 0, 59, 3, 31, 24, 39, 32, 61, 58, 5, 2, 47, 40, 23, 16] {
        if p.b[s as usize].is_some() {
            continue;
        }
        p.b[s as usize] = Some(Pc { c, k: Kind::K });
        if p.is_legal_position() {
            return true;
        }
        p.b[s as usize] = None;
    }
    false
}

/// Systematic hazard families. Each is enumerated completely over its stated parameters
/// and filtered by the legality predicate.
pub fn families(emit: &mut dyn FnMut(&Pos, &'static str)) {
    // F1: en passant x (own king anywhere) x (one enemy slider anywhere): pins and
    // discovered attacks on ranks, files and both diagonals.
    for us in [Color::W, Color::B] {
        let them = us.other();
        let (our_rank, ep_rank) = if us == Color::W { (4, 5) } else { (3, 2) };
        for file in 0..8 {
            for capt in 0..3 {
                // which neighbours hold a capturing pawn: 0 = west, 1 = east, 2 = both
                let west = capt != 1;
                let east = capt != 0;
                if (west && file == 0) || (east && file == 7) {
                    continue;
                }
                let mut base = Pos::empty();
                base.stm = us;
                put(&mut base, sq(file, our_rank), them, Kind::P);
                if west {
                    put(&mut base, sq(file - 1, our_rank), us, Kind::P);
                }
                if east {
                    put(&mut base, sq(file + 1, our_rank), us, Kind::P);
                }
                base.ep = Some(sq(file, ep_rank));
                for k in 0..64u8 {
                    let mut pk = base.clone();
                    if !put(&mut pk, k, us, Kind::K) {
                        continue;
                    }
                    for kind in [Kind::B, Kind::R, Kind::Q] {
                        for s in 0..64u8 {
                            let mut p = pk.clone();
                            if !put(&mut p, s, them, kind) {
                                continue;
                            }
                            if !place_safe_king(&mut p, them) {
                                continue;
                            }
                            if p.is_legal_position() {
                                emit(&p, "family_ep_x_slider");
                            }
                        }
                    }
                }
            }
        }
    }
    // F2: castling x one enemy attacker of every kind on every square (both sides, both wings
    // available at once), plus one blocker variant.
    for us in [Color::W, Color::B] {
        let them = us.other();
        let back = if us == Color::W { 0 } else { 7 };
        let mut base = Pos::empty();
        base.stm = us;
        put(&mut base, sq(4, back), us, Kind::K);
        put(&mut base, sq(0, back), us, Kind::R);
        put(&mut base, sq(7, back), us, Kind::R);
        if us == Color::W {
            base.cr = [true, true, false, false];
        } else {
            base.cr = [false, false, true, true];
        }
        for kind in [Kind::P, Kind::N, Kind::B, Kind::R, Kind::Q, Kind::K] {
            for s in 0..64u8 {
                let mut p = base.clone();
                if kind == Kind::P && (rank_of(s) == 0 || rank_of(s) == 7) {
                    continue;
                }
                if !put(&mut p, s, them, kind) {
                    continue;
                }
                if kind != Kind::K && !place_safe_king(&mut p, them) {
                    continue;
                }
                if p.is_legal_position() {
                    emit(&p, "family_castle_x_attacker");
                }
                // same with an own knight parked on b/g file (path blocked on one wing)
                for bf in [1, 6] {
                    let mut q = p.clone();
                    if put(&mut q, sq(bf, back), us, Kind::N) && q.is_legal_position() {
                        emit(&q, "family_castle_x_attacker_blocked");
                    }
                }
            }
        }
    }
    // F3: pin geometry: king, a piece of ours on a ray, an enemy slider behind it (right or
    // wrong kind for the ray), every distance.
    for us in [Color::W, Color::B] {
        let them = us.other();
        for k in 0..64u8 {
            for (df, dr) in [
                (1, 0),
                (1, 1),
                (0, 1),
                (-1, 1),
                (-1, 0),
                (-1, -1),
                (0, -1),
                (1, -1),
            ] {
                for d1 in 1..7 {
                    for d2 in (d1 + 1)..8 {
                        let (f1, r1) = (file_of(k) + df * d1, rank_of(k) + dr * d1);
                        let (f2, r2) = (file_of(k) + df * d2, rank_of(k) + dr * d2);
                        if !on_board(f2, r2) {
                            continue;
                        }
                        for pinned in [Kind::P, Kind::N, Kind::B, Kind::R, Kind::Q] {
                            if pinned == Kind::P && (r1 == 0 || r1 == 7) {
                                continue;
                            }
                            for pinner in [Kind::B, Kind::R, Kind::Q] {
                                let mut p = Pos::empty();
                                p.stm = us;
                                put(&mut p, k, us, Kind::K);
                                put(&mut p, sq(f1, r1), us, pinned);
                                put(&mut p, sq(f2, r2), them, pinner);
                                if !place_safe_king(&mut p, them) {
                                    continue;
                                }
                                if p.is_legal_position() {
                                    emit(&p, "family_pin_geometry");
                                }
                            }
                        }
                    }
                }
            }
        }
    }
    // F4: promotions (push and both captures) while a checker of every kind stands on every
    // square; pawn on each file of the seventh rank.
    for us in [Color::W, Color::B] {
        let them = us.other();
        let (r7, r8) = if us == Color::W { (6, 7) } else { (1, 0) };
        for file in 0..8 {
            for kf in [1, 4, 6] {
                let kr = if us == Color::W { 0 } else { 7 };
                let mut base = Pos::empty();
                base.stm = us;
                put(&mut base, sq(file, r7), us, Kind::P);
                if !put(&mut base, sq(kf, kr), us, Kind::K) {
                    continue;
                }
                // capturable pieces on the promotion rank
                if file > 0 {
                    put(&mut base, sq(file - 1, r8), them, Kind::R);
                }
                if file < 7 {
                    put(&mut base, sq(file + 1, r8), them, Kind::N);
                }
                for kind in [Kind::N, Kind::B, Kind::R, Kind::Q] {
                    for s in 0..64u8 {
                        let mut p = base.clone();
                        if !put(&mut p, s, them, kind) {
                            continue;
                        }
                        if !place_safe_king(&mut p, them) {
                            continue;
                        }
                        if p.is_legal_position() {
                            emit(&p, "family_promotion_x_checker");
                        }
                    }
                }
            }
        }
    }
    // F5: double check: knight + slider, slider + slider on every pair of squares around a
    // central and an edge king.
    for us in [Color::W, Color::B] {
        let them = us.other();
        for k in [27u8, 0, 4, 63, 32] {
            for a in 0..64u8 {
                for b in (a + 1)..64u8 {
                    for (ka, kb) in [(Kind::N, Kind::R), (Kind::B, Kind::R), (Kind::Q, Kind::N), (Kind::R, Kind::B)] {
                        let mut p = Pos::empty();
                        p.stm = us;
                        put(&mut p, k, us, Kind::K);
                        if !put(&mut p, a, them, ka) || !put(&mut p, b, them, kb) {
                            continue;
                        }
                        if !(p.piece_attacks(a, k) && p.piece_attacks(b, k)) {
                            continue;
                        }
                        // a defender that could capture or block one checker
                        put(&mut p, if k == 27 { 9 } else { 28 }, us, Kind::Q);
                        if !place_safe_king(&mut p, them) {
                            continue;
                        }
                        if p.is_legal_position() {
                            emit(&p, "family_double_check");
                        }
                    }
                }
            }
        }
    }
}
