#!/bin/bash
# Runs every registered check at several seeds on the unchanged tree; every line must say HELD.
#   selftest/multiseed.sh quick "2 3 4"      (tier, seeds)
tier=${1:-quick}; seeds=${2:-"2 3"}
cd "$(dirname "$0")/.."
for s in $seeds; do
  for p in C01 C02 C03 C04 C05 C06 C07 C08 C09 C10 C11 C12 C13 C14 C15 C16 C17 C18 C19 C20; do
    out=$(VERIF_SEED=$s ./check $p --tier $tier 2>/dev/null | grep -E "^(HELD|VIOLATION|ERROR|NO-EVIDENCE|KNOWN)" | head -3 | tr '\n' ' ')
    echo "seed=$s $out"
  done
done
