#!/usr/bin/env python3
"""Confirms a seeded change delivered by a sub-agent, in its own scratch worktree (never in /repo):

  1. patch.diff applies on the worktree's HEAD, the code compiles and the existing suite still passes (181 tests);
  2. the demonstration FAILS with the change;
  3. the demonstration PASSES without it.

  validate_seed.py <ID> <variant> [--keep]   (expects /tmp/wt-<ID> and /tmp/seed-out/<ID>/<variant>/)
On success copies the artefacts to /verif/seeded/<ID>-<variant>/ and writes meta.json.
"""
import json
import os
import re
import shutil
import subprocess
import sys

VERIF = os.path.dirname(os.path.dirname(os.path.abspath(__file__)))


def sh(cmd, cwd, timeout=1800, env=None):
    e = dict(os.environ, CARGO_NET_OFFLINE="true")
    if env:
        e.update(env)
    return subprocess.run(cmd, cwd=cwd, text=True, capture_output=True, timeout=timeout, env=e, shell=isinstance(cmd, str))


def clean(wt):
    sh("git checkout -- . && git clean -fdq src", wt)


def suite(wt):
    p = sh("cargo test --workspace --no-fail-fast --offline 2>&1 | grep -E '^test result'", wt)
    m = re.search(r"(\d+) passed; (\d+) failed", p.stdout)
    return (int(m.group(1)), int(m.group(2))) if m else (0, -1)


def run_demo(wt, d, needs_cfg):
    """returns True if the demonstration passes (exit 0)."""
    if os.path.exists(os.path.join(d, "demo.diff")):
        a = sh(["git", "apply", os.path.join(d, "demo.diff")], wt)
        if a.returncode != 0:
            return None, "demo.diff does not apply: " + a.stderr[:200]
        env = {"RUSTFLAGS": "--cfg jgilchrist_tcheran_verif"} if needs_cfg else None
        p = sh("cargo test --offline seed_demo 2>&1 | tail -40", wt, env=env)
        m = re.findall(r"test result: (\w+)\. (\d+) passed; (\d+) failed", p.stdout)
        if not m:
            return None, "demo did not run: " + p.stdout[-400:]
        ran = sum(int(x[1]) + int(x[2]) for x in m)
        if ran == 0:
            return None, "demo ran no test"
        return all(x[0] == "ok" for x in m), p.stdout[-600:]
    for name, runner in (("demo.py", ["python3"]), ("demo.sh", ["bash"])):
        f = os.path.join(d, name)
        if os.path.exists(f):
            try:
                p = sh(runner + [f], wt, timeout=1200)
            except subprocess.TimeoutExpired:
                return False, "demo timed out (counted as failing)"
            return p.returncode == 0, (p.stdout + p.stderr)[-600:]
    return None, "no demonstration found"


def main():
    pid, var = sys.argv[1], sys.argv[2]
    wave = sys.argv[3] if len(sys.argv) > 3 else ""   # "" = first wave (/tmp/wt-ID, /tmp/seed-out), "2" = second wave
    wt = f"/tmp/wt{wave}-{pid}"
    d = f"/tmp/seed-out{wave}/{pid}/{var}"
    res = {"id": f"{pid}-{var}", "property": pid}
    if not os.path.exists(os.path.join(d, "patch.diff")):
        print(json.dumps({**res, "ok": False, "why": "no patch.diff"}))
        return 1
    notes = open(os.path.join(d, "notes.md")).read() if os.path.exists(os.path.join(d, "notes.md")) else ""
    needs_cfg = "jgilchrist_tcheran_verif" in notes or "jgilchrist_tcheran_verif" in (open(os.path.join(d, "demo.diff")).read() if os.path.exists(os.path.join(d, "demo.diff")) else "")
    clean(wt)
    try:
        a = sh(["git", "apply", os.path.join(d, "patch.diff")], wt)
        if a.returncode != 0:
            print(json.dumps({**res, "ok": False, "why": "patch does not apply: " + a.stderr[:200]}))
            return 1
        passed, failed = suite(wt)
        res["suite_with_change"] = f"{passed} passed, {failed} failed"
        if failed != 0 or passed < 181:
            print(json.dumps({**res, "ok": False, "why": "existing suite does not pass with the change"}))
            return 1
        with_change, out1 = run_demo(wt, d, needs_cfg)
        clean(wt)
        without, out2 = run_demo(wt, d, needs_cfg)
        clean(wt)
        res["demo_with_change_passes"] = with_change
        res["demo_without_change_passes"] = without
        ok = with_change is False and without is True
        res["ok"] = ok
        if not ok:
            res["why"] = f"demo with change: {out1[-300:]} | without: {out2[-300:]}"
            print(json.dumps(res))
            return 1
        dst = os.path.join(VERIF, "seeded", f"{pid}-{var}")
        os.makedirs(dst, exist_ok=True)
        for f in os.listdir(d):
            if os.path.isfile(os.path.join(d, f)):
                shutil.copy(os.path.join(d, f), os.path.join(dst, f))
        trigger = ""
        m = re.search(r"(?is)(trigger|manifest)[^\n]*\n(.{0,600})", notes)
        if m:
            trigger = m.group(0)[:700]
        json.dump({"property": pid, "variant": var, "author": "independent sub-agent (saw only the property text)",
                   "needs_to_manifest": trigger or notes[:700],
                   "confirmed": {"suite_with_change": res["suite_with_change"], "demo_fails_with_change": True,
                                 "demo_passes_without_change": True,
                                 "how": "selftest/validate_seed.py in a scratch worktree of /repo under /tmp (removed afterwards)"}},
                  open(os.path.join(dst, "meta.json"), "w"), indent=1)
        print(json.dumps(res))
        return 0
    finally:
        clean(wt)


if __name__ == "__main__":
    sys.exit(main())
