#!/usr/bin/env python3
"""Runs the checks against the seeded defects in /verif/seeded/*/ (monitor self-test).

For each seeded change: `git -C /repo apply patch.diff`, run the quick (or thorough) check of the
property it breaks, expect exit 1 with a VIOLATION line, then `git -C /repo checkout -- .`.
Nothing is ever committed to /repo; the tree is restored even if a check crashes.

  selftest/run_seeded.py [--only NAME_SUBSTRING] [--tier quick|thorough] [--also PROP,PROP]
"""
import json
import os
import subprocess
import sys
import time

VERIF = os.path.dirname(os.path.dirname(os.path.abspath(__file__)))
SEEDED = os.path.join(VERIF, "seeded")
REPO = "/repo"
CHECK_VERIF = VERIF
ENV = dict(os.environ)


def sh(cmd, **kw):
    return subprocess.run(cmd, text=True, capture_output=True, **kw)


def repo_clean():
    return sh(["git", "-C", REPO, "status", "--porcelain", "--untracked-files=no"]).stdout.strip() == ""


def make_sandbox(path):
    """A scratch worktree of /repo plus a scratch copy of /verif (with its own build directory), so that the
    self-test can run while /repo itself is in use. Outside /repo and /verif; remove it when done
    (git -C /repo worktree remove --force <path>/repo; rm -rf <path>)."""
    global REPO, CHECK_VERIF, ENV
    os.makedirs(path, exist_ok=True)
    repo = os.path.join(path, "repo")
    if not os.path.exists(repo):
        r = sh(["git", "-C", "/repo", "worktree", "add", "--detach", repo, "HEAD"])
        if r.returncode != 0:
            raise SystemExit("cannot create scratch worktree: " + r.stderr)
    verif = os.path.join(path, "verif")
    sh(["rsync", "-a", "--delete", "--exclude", ".build", "--exclude", "replays", "--exclude", ".git", "--exclude", "harness/repo",
        VERIF + "/", verif + "/"])
    REPO, CHECK_VERIF = repo, verif
    ENV = dict(os.environ, VERIF_REPO=repo)


def main():
    only = None
    tier = "quick"
    also = []
    a = sys.argv[1:]
    while a:
        x = a.pop(0)
        if x == "--only":
            only = a.pop(0)
        elif x == "--tier":
            tier = a.pop(0)
        elif x == "--also":
            also = a.pop(0).split(",")
        elif x == "--sandbox":
            make_sandbox(a.pop(0))
        elif x == "--dir":
            global SEEDED
            SEEDED = os.path.join(VERIF, a.pop(0))
    if not repo_clean():
        print("refusing to run: /repo has uncommitted changes")
        return 2
    names = sorted(d for d in os.listdir(SEEDED) if os.path.exists(os.path.join(SEEDED, d, "meta.json")))
    results = {}
    res_path = os.path.join(SEEDED, "RESULTS.json")
    if os.path.exists(res_path):
        results = json.load(open(res_path))
    for name in names:
        if only and only not in name:
            continue
        d = os.path.join(SEEDED, name)
        meta = json.load(open(os.path.join(d, "meta.json")))
        # "judged_by": the author aimed at one property, but what the change breaks is another property's subject
        # (explained in meta.json and DESIGN.md section 10); the check of that property is the one that has to fire
        main_prop = meta.get("judged_by", meta["property"])
        props = [main_prop] + [p for p in also if p != main_prop]
        r = sh(["git", "-C", REPO, "apply", os.path.join(d, "patch.diff")])
        if r.returncode != 0:
            print(f"{name}: patch does not apply: {r.stderr.strip()[:200]}")
            results[name] = {"property": meta["property"], "error": "patch does not apply"}
            continue
        try:
            for prop in props:
                t0 = time.time()
                c = sh([os.path.join(CHECK_VERIF, "check"), prop, "--tier", tier], cwd=CHECK_VERIF, env=ENV)
                sigs = sorted({line.split("]")[1].split(":")[0].strip() for line in c.stdout.splitlines() if line.startswith("  [")})
                caught = c.returncode == 1 and "VIOLATION property=" + prop in c.stdout
                key = name if prop == main_prop else f"{name}@{prop}"
                results[key] = {"property": prop, "tier": tier, "exit": c.returncode, "caught": caught, "signatures": sigs,
                                "wall_s": round(time.time() - t0, 1)}
                print(f"{key}: {'CAUGHT' if caught else 'MISSED'} exit={c.returncode} {sigs[:3]} ({time.time() - t0:.0f}s)")
                if c.returncode == 2:
                    print("   " + "\n   ".join(c.stdout.splitlines()[-5:]))
        finally:
            json.dump(results, open(res_path, "w"), indent=1, sort_keys=True)
            sh(["git", "-C", REPO, "checkout", "--", "."])
            if not repo_clean():
                print("ERROR: could not restore /repo")
                return 2
    json.dump(results, open(res_path, "w"), indent=1, sort_keys=True)
    missed = [k for k, v in results.items() if not v.get("caught")]
    print(f"{len(results) - len(missed)} caught, {len(missed)} missed: {missed}")
    return 0


if __name__ == "__main__":
    sys.exit(main())
