#!/usr/bin/env python3
"""Regenerates /verif/selftest/mutants/<name>/{patch.diff,meta.json} from the table below.
These are the monitor authors' own mutants (not independent); the independently written ones are in /verif/seeded."""
import json, os, subprocess, sys
VERIF = os.path.dirname(os.path.dirname(os.path.abspath(__file__)))
OUT = os.path.join(VERIF, "selftest", "mutants")
M = [
 ("C01-castle-target-not-checked", "C01", "src/chess/movegen/gen.rs",
  "        && attackers::generate_attackers_of(&game.board, game.player, target_square).is_empty()\n", "",
  "castling allowed onto an attacked target square"),
 ("C01-pinned-knight-moves", "C01", "src/chess/movegen/gen.rs",
  "    for knight in knights & !(orthogonal_pins | diagonal_pins) {\n        let destinations = tables::knight_attacks(knight) & check_mask;\n\n        let capture_destinations",
  "    for knight in knights & !orthogonal_pins {\n        let destinations = tables::knight_attacks(knight) & check_mask;\n\n        let capture_destinations",
  "diagonally pinned knights may capture"),
 ("C02-undo-castle-rook-left", "C02", "src/chess/game.rs",
  "                self.board.remove_at(rook_to);\n                self.board\n                    .set_at(rook_from, Piece::new(player, PieceKind::Rook));",
  "                self.board\n                    .set_at(rook_from, Piece::new(player, PieceKind::Rook));",
  "undoing castling leaves a second rook on f1/d1"),
 ("C02-ep-target-west-only", "C02", "src/chess/game.rs",
  "            let en_passant_attacker_squares = to_bb.west() | to_bb.east();",
  "            let en_passant_attacker_squares = to_bb.west();",
  "en-passant target recorded only if the capturer stands to the west (half-applied convention)"),
 ("C03-rook-capture-right-not-toggled", "C03", "src/chess/game.rs",
  "            } else if to == squares::queenside_rook_start(other_player) {\n                self.try_remove_castle_rights(other_player, CastleRightsSide::Queenside);\n            }",
  "            } else if to == squares::queenside_rook_start(other_player) {\n                self.castle_rights\n                    .for_player_mut(other_player)\n                    .remove_rights(CastleRightsSide::Queenside);\n            }",
  "capturing the a-file rook drops the right without toggling its key word"),
 ("C09-null-move-swallows-abort", "C09", "src/engine/search/negamax.rs",
  "                &mut PrincipalVariation::new(),\n                ctx,\n            )?;\n\n            game.undo_null_move();",
  "                &mut PrincipalVariation::new(),\n                ctx,\n            )\n            .unwrap_or(Eval::DRAW);\n\n            game.undo_null_move();",
  "an abort inside the null-move sub-search is swallowed and the search goes on"),
 ("C11-repetition-window-off-by-one", "C11", "src/chess/game.rs",
  "            .take(self.halfmove_clock as usize)", "            .take((self.halfmove_clock as usize).saturating_sub(1))",
  "the oldest position of the reversible window is not compared"),
 ("C15-promotion-uses-pawn", "C15", "src/chess/game.rs",
  "            self.set_at(to, promoted_piece);", "            self.board.set_at(to, promoted_piece);\n            self.zobrist.toggle_piece_on_square(to, promoted_piece);\n            self.incremental_eval.set_at(to, moved_piece);",
  "accumulators updated with the pawn instead of the promoted piece"),
 ("C19-age-compared-with-less", "C19", "src/engine/search/transposition.rs",
  "        if new.age != self.age {", "        if new.age > self.age {",
  "after the 8-bit generation wraps, entries of the newer search no longer displace older ones"),
 ("C19-index-off-by-one", "C19", "src/engine/transposition_table.rs",
  "        key.0 as usize % self.data.len()", "        key.0 as usize % (self.data.len() + 1)",
  "slot index can be one past the end of the table (heap out of bounds through the unchecked access)"),
 ("C07-east-mask-dropped", "C07", "src/chess/bitboard.rs",
  "        Self(self.0 << 1) & Self::NOT_A_FILE", "        Self(self.0 << 1)",
  "east shift wraps from the h-file to the a-file of the next rank"),
 ("C12-history-not-reset", "C12", "src/engine/search/mod.rs",
  "        self.tt.reset();\n        self.history_table.reset();", "        self.tt.reset();",
  "ucinewgame keeps the history scores of earlier searches"),
 ("C14-max-fraction", "C14", "src/engine/search/mod.rs",
  "    pub const MAX_TIME_PER_MOVE: f32 = 0.5;", "    pub const MAX_TIME_PER_MOVE: f32 = 0.55;",
  "hard limit may exceed half of the remaining time"),
 ("C20-knight-value", "C20", "src/engine/see.rs",
  "        Knight | Bishop => 300,", "        Knight => 320,\n        Bishop => 300,",
  "knights valued above bishops: N x B on a defended square is judged a losing capture"),
]
def main():
    st = subprocess.run(["git","-C","/repo","status","--porcelain","--untracked-files=no"],capture_output=True,text=True).stdout.strip()
    if st:
        print("refusing: /repo not clean"); return 2
    for name, prop, path, old, new, why in M:
        full = os.path.join("/repo", path)
        src = open(full).read()
        if src.count(old) != 1:
            print(f"{name}: pattern occurs {src.count(old)} times, skipped"); continue
        try:
            open(full,"w").write(src.replace(old,new))
            diff = subprocess.run(["git","-C","/repo","diff"],capture_output=True,text=True).stdout
        finally:
            subprocess.run(["git","-C","/repo","checkout","--","."])
        d = os.path.join(OUT,name); os.makedirs(d,exist_ok=True)
        open(os.path.join(d,"patch.diff"),"w").write(diff)
        json.dump({"property":prop,"what":why,"author":"monitor authors (not independent)"},open(os.path.join(d,"meta.json"),"w"),indent=1)
        print(name,"ok")
    return 0
if __name__=="__main__": sys.exit(main())
