"""More process-level monitors on the real binary: C13, C17, and the binary stages of C04, C06, C12, C14."""
import random
import subprocess
import re
import zlib
import threading
import time
from concurrent.futures import ThreadPoolExecutor

import vcheck as vc
from procmon import Engine, oracle_positions, oracle_games, oracle_heavy, static_heavy, oracle, position_cmd, now

START_LEGAL = sorted(["a2a3", "a2a4", "b2b3", "b2b4", "c2c3", "c2c4", "d2d3", "d2d4", "e2e3", "e2e4", "f2f3", "f2f4",
                      "g2g3", "g2g4", "h2h3", "h2h4", "b1a3", "b1c3", "g1f3", "g1h3"])


def ask(e, cmd, pred, timeout):
    """send cmd, wait for a line satisfying pred that arrives after the send."""
    n = e.n_out()
    if not e.send(cmd):
        return None
    got = e.wait_line(pred, n, timeout)
    return got[1] if got else None


def exchange(e, cmd, timeout=60.0):
    """Send `cmd` followed by `isready` and return the stdout lines printed in between, or None if
    `readyok` did not arrive. Everything printed before `readyok` belongs to commands sent before
    `isready`, so answers cannot be attributed to the wrong question however slow the machine is."""
    n = e.n_out()
    if not e.send(cmd) or not e.send("isready"):
        return None
    got = e.wait_line(lambda x: x == "readyok", n, timeout)
    if got is None:
        return None
    with e.cv:
        return [x for _, x in e.out_lines[n:got[0]]]


def settle(e, timeout=20.0):
    return ask(e, "isready", lambda x: x == "readyok", timeout) is not None


def crash_or_hang(e, what):
    """Classify a missing answer. Returns (verdict, signature, text)."""
    p = e.saw_panic()
    if p:
        return "violated", "crash", f"{what}: the engine crashed: {p[:300]}"
    kind, detail = e.classify_hang()
    if kind == "exited":
        return "violated", "exit", f"{what}: the engine exited with status {detail.get('returncode')}"
    if kind == "deadlock":
        return "violated", "deadlock", f"{what}: deadlock (all threads asleep in futex, CPU frozen)"
    return "inconclusive", "slow", f"{what}: no answer yet but the engine is alive"


# ---------------------------------------------------------------------------------------
# C13 — every advertised option value is accepted and survivable

def parse_spin_options(lines):
    opts = []
    for x in lines:
        m = re.match(r"option name (.+) type spin default (\d+) min (\d+) max (\d+)", x)
        if m:
            opts.append({"name": m.group(1), "default": int(m.group(2)), "min": int(m.group(3)), "max": int(m.group(4))})
    return opts


def c13_session(binary, plan, positions, delays=None):
    """plan: list of (option name, value, when) executed in order in one process. Returns list of results."""
    e = Engine(binary, {"VERIF_UCI_DELAYS": delays} if delays else None)
    results = []
    try:
        ask(e, "uci", lambda x: x == "uciok", 30)
        debug_session = zlib.crc32(f"debug/{plan[0][0]}/{plan[0][1]}".encode()) % 3 == 0
        if debug_session:
            e.send("debug on")  # a GUI's debug mode must not make option changes less survivable
        searched = False
        for (name, value, pos, go) in plan:
            r = {"option": name, "value": value, "between_searches": searched, "verdict": "held"}
            # every other value is set AFTER the position was given: the search that follows must still be about that position
            position_first = zlib.crc32(f"{value}/{name}".encode()) % 2 == 0
            if position_first:
                e.send(position_cmd(pos["root"], pos["moves"]))
                r["position_first"] = True
            n_before = e.n_out()
            # the same number as a GUI may legitimately write it: zero-padded, or with a plus sign
            written = (str(value), f"{value:04d}", f"+{value}", str(value), str(value), str(value))[zlib.crc32(f"w/{name}/{value}".encode()) % 6]
            if written != str(value):
                r["written_unusually"] = True
            e.send(f"setoption name {name} value {written}")
            ok = settle(e, 60.0)
            if ok:
                with e.cv:
                    refused = any("Unable to change" in x for _, x in e.out_lines[n_before:])
                if refused:
                    # the option arrived while the finished search thread still held the table lock and the engine
                    # said so; the value counts as set only once it was accepted, so it is sent again a moment later
                    r["refused_first"] = True
                    time.sleep(0.08)
                    e.send(f"setoption name {name} value {value}")
                    ok = settle(e, 60.0)
            if not ok:
                v, sig, text = crash_or_hang(e, f"isready after setoption name {name} value {value}")
                r.update({"verdict": v, "signature": f"c13.{sig}.isready", "what": text})
                results.append(r)
                break  # violated or inconclusive: never reuse an engine whose answer went missing (a late answer would be
                # attributed to the next question)
            if not position_first and zlib.crc32(f"{name}={value}".encode()) % 3 == 0:
                # what a GUI does after changing options between games
                r["then_ucinewgame"] = True
                e.send("ucinewgame")
                if not settle(e, 60.0):
                    v, sig, text = crash_or_hang(e, f"isready after setoption name {name} value {value} and ucinewgame")
                    r.update({"verdict": v, "signature": f"c13.{sig}.ucinewgame", "what": text})
                    results.append(r)
                    break
            if not position_first:
                e.send(position_cmd(pos["root"], pos["moves"]))
            n = e.n_out()
            cpu0 = e.cpu_ns()
            e.send(go)
            got = e.wait_line(lambda x: x.startswith("bestmove"), n, 60.0)
            if got is None:
                v, sig, text = crash_or_hang(e, f"'{go}' after setoption name {name} value {value}")
                m = re.search(r"movetime (\d+)", go)
                cpu1 = e.cpu_ns()
                if v == "inconclusive" and m and cpu0 is not None and cpu1 is not None and (cpu1 - cpu0) / 1e6 > int(m.group(1)) + 10_000:
                    # a fixed move time is a hard bound on thinking: the engine has burnt ten seconds of its OWN CPU time
                    # beyond it and still has not moved (load cannot explain CPU time the process itself consumed)
                    v, sig = "violated", "search-did-not-complete"
                    text = (f"'{go}' after setoption name {name} value {value}: no bestmove after {(cpu1 - cpu0) / 1e6:.0f} ms of the "
                            f"engine's own CPU time")
                r.update({"verdict": v, "signature": f"c13.{sig}.search", "what": text})
                results.append(r)
                break  # violated or inconclusive: never reuse an engine whose answer went missing (a late answer would be
                # attributed to the next question)
            if debug_session or zlib.crc32(f"again/{name}/{value}".encode()) % 4 == 0:
                # a GUI re-sends its whole option list: the same value once more, then the engine must still be there
                # (sent after a pause, so that it is not refused for arriving in the bestmove window)
                r["sent_again"] = True
                time.sleep(0.08)
                e.send(f"setoption name {name} value {value}")
                if not settle(e, 60.0):
                    v, sig, text = crash_or_hang(e, f"isready after setoption name {name} value {value} sent a second time")
                    r.update({"verdict": v, "signature": f"c13.{sig}.same-value-again", "what": text})
                    results.append(r)
                    break
            mv = got[1].split()[1]
            if mv not in pos["legal"]:
                r.update({"verdict": "violated", "signature": "c13.illegal-bestmove",
                          "what": f"after setoption name {name} value {value}: '{got[1]}' is not legal in {pos['fen']}"})
            searched = True
            results.append(r)
        if e.saw_panic() and all(r["verdict"] == "held" for r in results):
            results.append({"option": "?", "value": 0, "verdict": "violated", "signature": "c13.crash",
                            "what": f"panic output: {e.saw_panic()[:200]}"})
    finally:
        hist = e.history(120)
        e.close()
    for r in results:
        if r["verdict"] != "held":
            r["history"] = hist
    return results


def c13_stage(out, tier, seed):
    thorough = tier == "thorough"
    harness = vc.build_harness("checked")
    bins = [("release", vc.build_repo("release"))]
    if thorough:
        bins.append(("debug", vc.build_repo("debug")))
    positions = oracle_positions(harness, 40, seed + 13)
    rng = random.Random(seed * 31 + 13)
    # the advertised ranges are the quantifier: read them from the binary itself
    e = Engine(bins[0][1])
    e.send("uci")
    e.wait_line(lambda x: x == "uciok", 0, 30)
    with e.cv:
        lines = [x for _, x in e.out_lines]
    e.close()
    opts = parse_spin_options(lines)
    out.extra["x_advertised_spin_options"] = opts
    if not opts:
        out.errors.append("no spin options advertised by the binary: nothing to quantify over")
        return
    sessions = []
    for (bname, binary) in bins:
        for o in opts:
            lo, hi = o["min"], o["max"]
            big = o["name"] == "Hash"
            values = {lo, hi, o["default"], min(lo + 1, hi), max(hi - 1, lo)}
            grid = 24 if not thorough else 400
            for _ in range(grid):
                v = rng.randint(lo, hi)
                if big and not thorough:
                    v = rng.choice([rng.randint(lo, min(hi, 64)), rng.randint(lo, hi)])
                values.add(v)
            if big:
                values.update(x for x in (0, 1, 2, 3, 7, 8, 16, 255, 256, 257, 512, 1023, 1024) if lo <= x <= hi)
            values = sorted(values)
            rng.shuffle(values)
            # sessions of several values each, in random order: "before and between searches"
            chunk = 4
            for i in range(0, len(values), chunk):
                plan = []
                for v in values[i:i + chunk]:
                    pos = rng.choice(positions)
                    if o["name"] == "Move Overhead":
                        # (incl. clocks just above the overhead being set - two and a half times, and 1 ms more - with and
                        # without moves to go: the corners where 'remaining minus overhead' meets the 50 % cap)
                        c1, c2 = max(1, int(v * 2.5)), v + 1
                        go = rng.choice(["go depth 3", "go wtime 2000 btime 2000 winc 0 binc 0", "go wtime 300 btime 300 movestogo 2",
                                         "go movetime 200", "go movetime 40", f"go wtime {c1} btime {c1} movestogo 10",
                                         f"go wtime {c1} btime {c1} winc 50 binc 50", f"go wtime {c2} btime {c2} movestogo 1",
                                         f"go wtime {c1} btime {c1} movestogo 40"])
                    else:
                        go = "go depth 3"
                    plan.append((o["name"], v, pos, go))
                heavy = any(v > 300 for (_, v, _, _) in plan) and big
                sessions.append((bname, binary, plan, heavy))
    lock = threading.Lock()
    heavy_sem = threading.Semaphore(3)
    stats = {"values": 0, "between": 0, "first": 0}
    distinct = set()

    def work(s):
        bname, binary, plan, heavy = s
        if heavy:
            heavy_sem.acquire()
        # "between searches" includes the moment right after bestmove, while the search thread is still
        # winding down: every second session holds that window open (hook H3)
        delayed = (zlib.crc32((str(plan[0][1]) + plan[0][0]).encode()) % 2 == 0)
        try:
            res = c13_session(binary, plan, positions, "go.after_bestmove=25,go.after_latch_set=10" if delayed else None)
            if delayed:
                with lock:
                    out.features["sessions_setting_options_right_after_bestmove"] = out.features.get("sessions_setting_options_right_after_bestmove", 0) + 1
        finally:
            if heavy:
                heavy_sem.release()
        with lock:
            for r in res:
                stats["values"] += 1
                stats["between" if r.get("between_searches") else "first"] += 1
                if r.get("written_unusually"):
                    out.features["values_written_zero_padded_or_signed"] = out.features.get("values_written_zero_padded_or_signed", 0) + 1
                if r.get("sent_again"):
                    out.features["values_sent_a_second_time"] = out.features.get("values_sent_a_second_time", 0) + 1
                if r.get("position_first"):
                    out.features["values_set_after_the_position_command"] = out.features.get("values_set_after_the_position_command", 0) + 1
                if r.get("refused_first"):
                    out.features["values_refused_in_the_bestmove_window_then_set_again"] = out.features.get("values_refused_in_the_bestmove_window_then_set_again", 0) + 1
                if r.get("then_ucinewgame"):
                    out.features["values_followed_by_ucinewgame"] = out.features.get("values_followed_by_ucinewgame", 0) + 1
                distinct.add((bname, r["option"], r["value"]))
                out.features[f"option_{r['option'].replace(' ', '_')}_values"] = out.features.get(f"option_{r['option'].replace(' ', '_')}_values", 0) + 1
                if r["option"] == "Hash" and r["value"] in (0, 1024):
                    out.features[f"hash_{r['value']}"] = out.features.get(f"hash_{r['value']}", 0) + 1
                if r["verdict"] == "violated":
                    sig = r["signature"] + (f".{r['option'].replace(' ', '_')}={r['value']}" if r["option"] == "Hash" and r["value"] == 0 else "")
                    out.add_violation(f"options-{bname}", sig, r["what"],
                                      {"kind": "py", "check": "c13", "binary": bname, "plan": [(a, b, c, d) for (a, b, c, d) in plan],
                                       "history": r.get("history")})
                elif r["verdict"] == "inconclusive":
                    out.add_inconclusive({"stage": f"options-{bname}", "what": r["what"]})

    with ThreadPoolExecutor(max_workers=8) as ex:
        list(ex.map(work, sessions))
    out.evaluations += stats["values"]
    out.groups["c13-values"] = len(distinct)
    out.features["values_set_before_first_search"] = stats["first"]
    out.features["values_set_between_searches"] = stats["between"]
    out.samples.append({"session": [(a, b, d) for (a, b, c, d) in sessions[0][2]]})
    out.rules.append("for every spin option the binary itself advertises: boundaries, neighbours, default and random interior "
                     "values, set before the first search and between searches in random order; afterwards isready must be "
                     "answered and a search must return a move legal per refchess; distinct = (binary, option, value)")
    out.stage_info.append({"stage": "options", "evaluations": stats["values"]})


# ---------------------------------------------------------------------------------------
# C17 — the position command reproduces the game exactly

def c17_batch(binary, games, conv_alive, conv_lock, delays=None):
    e = Engine(binary, {"VERIF_UCI_DELAYS": delays} if delays else None)
    res = []
    try:
        prev_has_replies = True  # a fresh engine holds the start position
        for g in games:
            r = {"game": g, "verdict": "held"}
            for pre in g.get("pre", []):
                # what a GUI sends between two position commands of one session
                if pre == "go" and not prev_has_replies:
                    continue  # no GUI asks for a move in a finished game (and C04 excludes terminal positions)
                if pre == "go":
                    ok = ask(e, "go movetime 40", lambda x: x.startswith("bestmove"), 60.0) is not None  # (a time limit, not depth 1: the first iteration of a many-queens position has no bound)
                elif pre == "ucinewgame":
                    e.send("ucinewgame")
                    ok = settle(e, 60.0)
                    prev_has_replies = True
                else:
                    ok = settle(e, 60.0)
                if not ok:
                    v, sig, text = crash_or_hang(e, f"'{pre}' between two position commands of a session")
                    r.update({"verdict": v, "signature": f"c17.{sig}", "what": text})
                    break
            if r["verdict"] != "held":
                res.append(r)
                break  # never reuse an engine whose answer went missing
            cmd = position_cmd(g["root"], g["moves"])
            if g["root"] != "startpos" and g["root"].endswith(" 0 1") and zlib.crc32(g["root"].encode() + g["moves"].encode()) % 2 == 0:
                # the two counters left out (they default to "0 1"): the same game
                cmd = cmd.replace(g["root"], g["root"][:-4], 1)
                r["short_fen"] = True
            e.send(cmd)
            prev_has_replies = bool(g["replies"])
            # what may come between the position command and the moment the position is used: none of it may change it
            for post in g.get("post", []):
                if post == "go":
                    if not g["replies"]:
                        continue
                    ok = ask(e, "go movetime 40", lambda x: x.startswith("bestmove"), 60.0) is not None  # (a time limit, not depth 1: the first iteration of a many-queens position has no bound)
                else:
                    e.send(post)
                    ok = settle(e, 60.0)
                if not ok:
                    v, sig, text = crash_or_hang(e, f"'{post}' after a position command")
                    r.update({"verdict": v, "signature": f"c17.{sig}", "what": text})
                    break
            if r["verdict"] != "held":
                res.append(r)
                break
            out_fen = exchange(e, "d fen")
            fen_lines = [x for x in (out_fen or []) if x.startswith("FEN: ")]
            if out_fen is None or len(fen_lines) != 1:
                v, sig, text = crash_or_hang(e, f"'d fen' after a position command with {len(g['moves'].split())} moves")
                if out_fen is not None and v == "inconclusive":
                    v, sig, text = "violated", "no-fen-line", f"'d fen' printed {len(fen_lines)} FEN lines after '{cmd[:120]}'"
                r.update({"verdict": v, "signature": f"c17.{sig}", "what": text})
                res.append(r)
                break
            got_fen = fen_lines[0][5:].strip()
            lines = exchange(e, "d perftdiv 1")
            if lines is None or not any(x.startswith("total: ") for x in lines):
                v, sig, text = crash_or_hang(e, "'d perftdiv 1' after a position command")
                r.update({"verdict": v, "signature": f"c17.{sig}", "what": text})
                res.append(r)
                break
            replies = sorted(x.split(":")[0].strip() for x in lines if re.match(r"^[a-h][1-8][a-h][1-8][nbrq]?: \d+$", x))
            bad_format = [x for x in lines if ":" in x and not re.match(r"^[a-h][1-8][a-h][1-8][nbrq]?: \d+$", x) and not x.startswith("total")]
            # position: placement/side/rights/clocks must match; the target field under a single convention
            def strip_ep(f):
                p = f.split()
                return " ".join(p[:3] + p[4:]), p[3]
            got_core, got_ep = strip_ep(got_fen)
            want_core, _ = strip_ep(g["fens"][0])
            if got_core != want_core:
                r.update({"verdict": "violated", "signature": "c17.position", "what": f"after '{cmd[:200]}...' the engine holds '{got_fen}', the rules give '{g['fens'][0]}'"})
            else:
                eps = [strip_ep(f)[1] for f in g["fens"]]
                if not g["moves"]:
                    # no move was played: the field is whatever the FEN text said, no convention involved
                    given = "-" if g["root"] == "startpos" else g["root"].split()[3]
                    if got_ep != given:
                        r.update({"verdict": "violated", "signature": "c17.ep-target", "what": f"en-passant target '{got_ep}' but the FEN given says '{given}'"})
                elif got_ep not in eps:
                    r.update({"verdict": "violated", "signature": "c17.ep-target", "what": f"en-passant target '{got_ep}' matches no convention {eps} ({got_fen})"})
                else:
                    with conv_lock:
                        for i in range(3):
                            if eps[i] != got_ep and conv_alive[i]:
                                conv_alive[i] = False
                                conv_alive[3 + i] = f"{cmd[:300]} -> {got_fen}"
            if r["verdict"] == "held" and replies != g["replies"]:
                r.update({"verdict": "violated", "signature": "c17.reply-set", "what": f"replies considered {replies} != rules {g['replies']} at '{got_fen}'"})
            if r["verdict"] == "held" and bad_format:
                r.update({"verdict": "violated", "signature": "c17.move-format", "what": f"reply not in long algebraic form: {bad_format[:3]}"})
            if r["verdict"] == "held" and g["replies"]:
                bm = ask(e, "go depth 1", lambda x: x.startswith("bestmove"), 30.0)
                if bm is None:
                    v, sig, text = crash_or_hang(e, "'go depth 1' after a position command")
                    r.update({"verdict": v, "signature": f"c17.{sig}", "what": text})
                elif bm.split()[1] not in g["replies"]:
                    r.update({"verdict": "violated", "signature": "c17.bestmove", "what": f"'{bm}' is not among the legal replies at '{got_fen}'"})
            res.append(r)
            if r["verdict"] != "held":
                break
        p = e.saw_panic()
        if p and all(r["verdict"] == "held" for r in res):
            res.append({"game": games[-1], "verdict": "violated", "signature": "c17.crash", "what": p[:300]})
    finally:
        hist = e.history(60)
        e.close()
    for r in res:
        if r["verdict"] != "held":
            r["history"] = hist
    return res


def c17_stage(out, tier, seed):
    thorough = tier == "thorough"
    harness = vc.build_harness("checked")
    bins = [("release", vc.build_repo("release"))]
    if thorough:
        bins.append(("debug", vc.build_repo("debug")))
    n_games = 60000 if thorough else 5000
    # the first games are very long (820..2500 plies, 'position' lines of 4..12 KB): the longest games a GUI can send
    games = oracle_games(harness, n_games, seed, 150, long=120 if thorough else 16)
    conv_alive = [True, True, True, None, None, None]
    conv_lock = threading.Lock()
    batches = []
    per = 100
    for i in range(0, len(games), per):
        batches.append((bins[(i // per) % len(bins)], games[i:i + per]))
    lock = threading.Lock()
    stats = {"games": 0, "plies": 0, "max_plies": 0}
    distinct = set()

    def work(b):
        (bname, binary), gs = b
        # sessions with searches in between: every second engine keeps the search thread alive (holding its
        # lock) for 25 ms after it printed bestmove, while the next commands arrive at once (hook H3)
        has_go = any("go" in g.get("pre", []) for g in gs)
        delayed = has_go and (zlib.crc32(gs[0]["moves"].encode()) % 2 == 0)
        res = c17_batch(binary, gs, conv_alive, conv_lock, "go.after_bestmove=25,go.after_latch_set=10" if delayed else None)
        if delayed:
            with lock:
                out.features["sessions_with_command_right_after_bestmove_delay"] = out.features.get("sessions_with_command_right_after_bestmove_delay", 0) + 1
        with lock:
            for r in res:
                g = r["game"]
                stats["games"] += 1
                if r.get("short_fen"):
                    out.features["games_from_a_four_field_fen"] = out.features.get("games_from_a_four_field_fen", 0) + 1
                    if g["moves"] and g["root"].split()[1] == "b" and len(g["moves"].split()) % 2 == 1:
                        out.features["games_from_a_four_field_fen_black_first_odd_length"] = out.features.get("games_from_a_four_field_fen_black_first_odd_length", 0) + 1
                n = len(g["moves"].split())
                stats["plies"] += n
                stats["max_plies"] = max(stats["max_plies"], n)
                for f in g["features"]:
                    out.features["games_with_" + f] = out.features.get("games_with_" + f, 0) + 1
                out.features["games_from_fen" if g["root"] != "startpos" else "games_from_startpos"] = out.features.get("games_from_fen" if g["root"] != "startpos" else "games_from_startpos", 0) + 1
                if n > 0:
                    distinct.add((g["root"], g["moves"]))
                if r["verdict"] == "violated":
                    out.add_violation(f"position-{bname}", r["signature"], r["what"],
                                      {"kind": "py", "check": "c17", "binary": bname, "game": g, "history": r.get("history")})
                elif r["verdict"] == "inconclusive":
                    out.add_inconclusive({"stage": f"position-{bname}", "what": r["what"]})

    # sessions: one game presented with growing / shrinking / repeated prefixes in ONE process, with
    # ucinewgame, isready and searches in between - as a GUI does while a game is being played
    sess_lines = [x.split("\t") for x in oracle(harness, "sessions", ["--n", 1500 if thorough else 160, "--seed", seed]) if x.startswith("step\t")]
    by_sid = {}
    srng = random.Random(seed * 911 + 17)
    for f in sess_lines:
        pre = []
        r = srng.random()
        if r < 0.25:
            pre.append("ucinewgame")
        elif r < 0.45:
            pre.append("go")
        elif r < 0.55:
            pre.extend(["go", "ucinewgame"])
        elif r < 0.65:
            pre.append("isready")
        post = []
        r2 = srng.random()
        if r2 < 0.12:
            post.append(f"setoption name Hash value {srng.choice([1, 2, 8, 32, 64])}")
        elif r2 < 0.20:
            post.append(f"setoption name Move Overhead value {srng.choice([0, 10, 100])}")
        elif r2 < 0.28:
            post.append(srng.choice(["debug on", "debug off"]))
        elif r2 < 0.36:
            post.append("go")
        elif r2 < 0.40:
            post.append("stop")
        by_sid.setdefault(f[1], []).append({"root": f[2], "moves": f[3], "fens": [f[4], f[5], f[6]], "replies": f[7].split(),
                                            "features": ["session_step"] + (["session_step_after_ucinewgame"] if "ucinewgame" in pre else [])
                                            + (["command_between_position_and_dump"] if post else []),
                                            "pre": pre, "post": post})
    for i, (sid, steps) in enumerate(sorted(by_sid.items())):
        batches.append((bins[i % len(bins)], steps))
    with ThreadPoolExecutor(max_workers=14) as ex:
        list(ex.map(work, batches))
    if not any(conv_alive[:3]):
        out.add_violation("position", "c17.ep.no-single-convention",
                          f"no single en-passant recording convention explains all FEN dumps: {conv_alive[3:]}",
                          {"kind": "py", "check": "c17-ep", "witnesses": conv_alive[3:]})
    out.extra["x_ep_conventions_alive"] = [n for n, a in zip(("Always", "Adjacent", "Legal"), conv_alive[:3]) if a]
    out.evaluations += stats["games"]
    out.groups["c17-games"] = len(distinct)
    out.features["plies_played"] = stats["plies"]
    out.features["longest_game_plies"] = stats["max_plies"]
    g0 = games[1] if len(games) > 1 else games[0]
    out.samples.append({"command": position_cmd(g0["root"], g0["moves"])[:400], "expected_fen": g0["fens"][1], "expected_replies": g0["replies"][:10]})
    out.rules.append("legal games generated by refchess (from startpos or corpus FENs, 0..600 plies, plus games kept alive to 820..2500 "
                     "plies whose command line is 4..12 KB long; biased to castling, en "
                     "passant and all promotion pieces) sent as 'position ... moves ...' to the real binary; 'd fen', "
                     "'d perftdiv 1' and 'go depth 1' compared with the reference's final position, reply set and "
                     "legality; distinct = distinct (root, move list) with >= 1 move")
    out.stage_info.append({"stage": "position-command", "evaluations": stats["games"], "plies": stats["plies"]})


# ---------------------------------------------------------------------------------------
# C14 — wall-clock part: given >= 200 ms, the move arrives before the clock runs out

def c14_timed(binary, pos, clock_ms, inc_ms, mtg, white, one_sided=False, with_depth=0):
    e = Engine(binary)
    r = {"verdict": "held"}
    try:
        e.send("setoption name Hash value 16")
        e.send(position_cmd(pos["root"], pos["moves"]))
        if not settle(e, 60.0):
            return {"verdict": "inconclusive", "what": "engine not ready"}
        if one_sided:
            # only the clock of the side to move is given (a driver that knows nothing about the opponent's clock)
            c = "w" if pos["fen"].split()[1] == "w" else "b"
            go = f"go {c}time {clock_ms}" + (f" {c}inc {inc_ms}" if inc_ms else "") + (f" movestogo {mtg}" if mtg else "")
        else:
            go = f"go wtime {clock_ms} btime {clock_ms} winc {inc_ms} binc {inc_ms}" + (f" movestogo {mtg}" if mtg else "")
        if with_depth:
            # a depth cap the search cannot reach in time, configured alongside the clock: the clock still binds
            go = (go + " depth 60") if with_depth == 1 else go.replace("go ", "go depth 60 ", 1)
        cpu0 = e.cpu_ns()
        t0 = now()
        n = e.n_out()
        e.send(go)
        got = e.wait_line(lambda x: x.startswith("bestmove"), n, clock_ms / 1000.0 + 30.0)
        t1 = now()
        cpu1 = e.cpu_ns()
        if got is None:
            if cpu0 is not None and cpu1 is not None and e.alive() and (cpu1 - cpu0) / 1e6 > clock_ms:
                # still thinking, and the engine's OWN CPU time since 'go' already exceeds the whole clock
                return {"verdict": "violated", "signature": "c14.flagged",
                        "what": f"'{go}': no move yet after {(cpu1 - cpu0) / 1e6:.0f} ms of the engine's own CPU time: the clock "
                                f"({clock_ms} ms) ran out before the move", "history": e.history(40)}
            v, sig, text = crash_or_hang(e, f"'{go}'")
            return {"verdict": v, "signature": f"c14.{sig}", "what": text, "history": e.history(40)}
        wall_ms = (t1 - t0) * 1000.0
        cpu_ms = (cpu1 - cpu0) / 1e6 if cpu0 is not None and cpu1 is not None else None
        r.update({"wall_ms": round(wall_ms, 2), "cpu_ms": None if cpu_ms is None else round(cpu_ms, 2), "go": go})
        if got[1].split()[1] not in pos["legal"]:
            r.update({"verdict": "violated", "signature": "c14.illegal-bestmove", "what": f"'{got[1]}' not legal in {pos['fen']}"})
        elif cpu_ms is not None and cpu_ms > clock_ms:
            # the search is single-threaded: CPU time <= wall time under any load, so this is certain
            r.update({"verdict": "violated", "signature": "c14.flagged", "what": f"'{go}' consumed {cpu_ms:.0f} ms of CPU time: the clock ({clock_ms} ms) ran out before the move"})
        elif wall_ms > clock_ms:
            r.update({"verdict": "inconclusive", "what": f"wall {wall_ms:.0f} ms > clock {clock_ms} ms but CPU {cpu_ms} ms: machine load"})
    finally:
        e.close()
    return r


def c14_stage(out, tier, seed):
    thorough = tier == "thorough"
    harness = vc.build_harness("checked")
    binary = vc.build_repo("release")
    positions = oracle_positions(harness, 40, seed + 14)
    rng = random.Random(seed * 131 + 14)
    n = 400 if thorough else 36
    cases = []
    for _ in range(n):
        cases.append((rng.choice(positions), rng.choice([200, 200, 250, 300, 500, 1000, 2000]), rng.choice([0, 0, 10, 100]),
                      rng.choice([None, None, 1, 2, 40])))
    # positions whose FIRST iteration alone outlasts the clock (many queens: the capture search explodes):
    # the limit has to be enforced inside iteration 1 too
    # the corners where soft = hard = half the clock: one move to go, or an increment far larger than the clock
    for _ in range(160 if thorough else 28):
        cases.append((rng.choice(positions), rng.choice([200, 200, 250, 300]), rng.choice([0, 0, 3000]), 1 if rng.random() < 0.6 else None))
        if cases[-1][2] == 0 and cases[-1][3] is None:
            cases[-1] = (cases[-1][0], cases[-1][1], 3000, None)
    # (a fixed measured list first - it does not rely on the tree's own poll counter - then freshly measured ones)
    sh = static_heavy(harness)
    for hp in (sh if thorough else rng.sample(sh, 4)):
        cases.append((hp, rng.choice([200, 300, 500, 1000]), 0, rng.choice([None, 1])))
        out.features["timed_searches_quiescence_heavy"] = out.features.get("timed_searches_quiescence_heavy", 0) + 1
    try:
        heavy = oracle_heavy(harness, 16 if thorough else 4, seed + 14, 300, timeout=600 if thorough else 150)
    except subprocess.TimeoutExpired:
        heavy = []  # the measurement itself is a bounded search of the tree under test; the fixed list stands in
        out.features["fresh_heavy_measurement_timed_out"] = 1
    for hp in heavy:
        cases.append((hp, rng.choice([200, 300, 500]), 0, rng.choice([None, 1])))
        out.features["timed_searches_quiescence_heavy_fresh"] = out.features.get("timed_searches_quiescence_heavy_fresh", 0) + 1
    lock = threading.Lock()
    margins = []

    one_sided_cases = {id(c) for k, c in enumerate(cases) if k % 5 == 2}
    depth_cases = {id(c): 1 + (k // 5) % 2 for k, c in enumerate(cases) if k % 5 == 4}

    def work(c):
        pos, clock, inc, mtg = c
        one = id(c) in one_sided_cases
        wd = depth_cases.get(id(c), 0)
        r = c14_timed(binary, pos, clock, inc, mtg, True, one_sided=one, with_depth=wd)
        if r["verdict"] == "inconclusive":
            # retry once, serially is not needed: a second sample under whatever load there is
            r = c14_timed(binary, pos, clock, inc, mtg, True, one_sided=one, with_depth=wd)
        with lock:
            out.evaluations += 1
            out.features["timed_searches"] = out.features.get("timed_searches", 0) + 1
            if wd:
                out.features["timed_searches_with_a_depth_cap_next_to_the_clock"] = out.features.get("timed_searches_with_a_depth_cap_next_to_the_clock", 0) + 1
            if one:
                out.features["timed_searches_with_only_the_movers_clock"] = out.features.get("timed_searches_with_only_the_movers_clock", 0) + 1
            if clock == 200:
                out.features["timed_searches_at_200ms"] = out.features.get("timed_searches_at_200ms", 0) + 1
            if mtg == 1:
                out.features["timed_searches_movestogo_1"] = out.features.get("timed_searches_movestogo_1", 0) + 1
            if r["verdict"] == "violated":
                out.add_violation("timed-release", r["signature"], r["what"], {"kind": "py", "check": "c14", "case": [pos, clock, inc, mtg], "history": r.get("history")})
            elif r["verdict"] == "inconclusive":
                out.add_inconclusive({"stage": "timed-release", "what": r["what"]})
            elif r.get("cpu_ms") is not None:
                margins.append((r["cpu_ms"] / clock, clock, r["cpu_ms"], r["wall_ms"]))

    with ThreadPoolExecutor(max_workers=4) as ex:
        list(ex.map(work, cases))

    # "a fixed move time is used as given", observed at the UCI boundary with a move overhead configured:
    # the move may not come back earlier than the move time (a lower bound on wall time cannot be
    # faked by machine load) and the engine may not burn much more CPU than the move time.
    def movetime_case(c):
        pos, overhead, mt = c
        e = Engine(binary)
        r = {"verdict": "held"}
        try:
            e.send("setoption name Hash value 16")
            e.send(f"setoption name Move Overhead value {overhead}")
            e.send(position_cmd(pos["root"], pos["moves"]))
            if not settle(e, 60.0):
                return {"verdict": "inconclusive", "what": "engine not ready"}
            cpu0, t0, n = e.cpu_ns(), now(), e.n_out()
            e.send(f"go movetime {mt}")
            got = e.wait_line(lambda x: x.startswith("bestmove"), n, mt / 1000.0 + 30.0)
            t1, cpu1 = now(), e.cpu_ns()
            if got is None:
                v, sig, text = crash_or_hang(e, f"'go movetime {mt}' with Move Overhead {overhead}")
                return {"verdict": v, "signature": f"c14.{sig}", "what": text}
            wall = (t1 - t0) * 1000.0
            cpu = (cpu1 - cpu0) / 1e6 if cpu0 is not None and cpu1 is not None else None
            with e.cv:
                depths = [int(x.split()[2]) for _, x in e.out_lines[n:] if x.startswith("info depth ")]
            if depths and max(depths) >= 200:
                return {"verdict": "inconclusive", "what": "search ran out of depth before the move time"}
            if wall < 0.9 * mt - 20:
                r = {"verdict": "violated", "signature": "c14.movetime-not-as-given.early",
                     "what": f"'go movetime {mt}' with Move Overhead {overhead}: the move came back after {wall:.0f} ms (max depth reported {max(depths) if depths else 0})"}
            elif cpu is not None and cpu > mt + 500:
                r = {"verdict": "violated", "signature": "c14.movetime-not-as-given.late",
                     "what": f"'go movetime {mt}' with Move Overhead {overhead}: {cpu:.0f} ms of CPU time consumed"}
        finally:
            e.close()
        return r

    # long sessions with a large table: the 256th, 257th ... search of a process is timed like any other
    def long_session(hash_mb):
        e = Engine(binary)
        r = {"verdict": "held"}
        try:
            e.send(f"setoption name Hash value {hash_mb}")
            if not settle(e, 120.0):
                return {"verdict": "inconclusive", "what": "engine not ready"}
            pos = roomy_positions[0]
            e.send(position_cmd(pos["root"], pos["moves"]))
            for i in range(260):
                timed = i >= 250
                cpu0, t0, n = e.cpu_ns(), now(), e.n_out()
                e.send("go wtime 250 btime 250" if timed else "go depth 1")
                got = e.wait_line(lambda x: x.startswith("bestmove"), n, 60.0)
                cpu1 = e.cpu_ns()
                if got is None:
                    v, sig, text = crash_or_hang(e, f"search {i + 1} of a session with Hash {hash_mb}")
                    return {"verdict": v, "signature": f"c14.{sig}", "what": text}
                if timed and cpu0 is not None and cpu1 is not None and (cpu1 - cpu0) / 1e6 > 250:
                    return {"verdict": "violated", "signature": "c14.flagged.long-session",
                            "what": f"search number {i + 1} of one process (Hash {hash_mb}) consumed {(cpu1 - cpu0) / 1e6:.0f} ms of CPU with 250 ms on the clock"}
                time.sleep(0.002)
        finally:
            e.close()
        return r

    roomy_positions = [p for p in positions if int(p["fen"].split()[4]) < 40 and sum(c.isalpha() for c in p["fen"].split()[0]) >= 12] or positions
    for hash_mb in ([256, 1024] if thorough else [512]):
        r = long_session(hash_mb)
        out.evaluations += 1
        out.features["timed_long_sessions_past_256_searches"] = out.features.get("timed_long_sessions_past_256_searches", 0) + 1
        if r["verdict"] == "violated":
            out.add_violation("timed-release", r["signature"], r["what"], {"kind": "py", "check": "c14-long", "hash": hash_mb})
        elif r["verdict"] == "inconclusive":
            out.add_inconclusive({"stage": "timed-release", "what": r["what"]})

    # an option that arrives in the instant after bestmove (the finished search thread still holds the tables, hook H3
    # keeps that window open) is refused by this engine; whatever it does with the value later must not happen on the
    # clock of the next timed search
    def refused_option_session(hash_mb):
        e = Engine(binary, {"VERIF_UCI_DELAYS": "go.after_bestmove=60"})
        r = {"verdict": "held", "refused": False}
        try:
            if not settle(e, 60.0):
                return {"verdict": "inconclusive", "what": "engine not ready"}
            pos = roomy_positions[0]
            e.send(position_cmd(pos["root"], pos["moves"]))
            n = e.n_out()
            e.send("go depth 2")
            if e.wait_line(lambda x: x.startswith("bestmove"), n, 60.0) is None:
                v, sig, text = crash_or_hang(e, "go depth 2")
                return {"verdict": v, "signature": f"c14.{sig}", "what": text}
            n = e.n_out()
            e.send(f"setoption name Hash value {hash_mb}")
            if not settle(e, 120.0):
                v, sig, text = crash_or_hang(e, f"setoption name Hash value {hash_mb} right after bestmove")
                return {"verdict": v, "signature": f"c14.{sig}", "what": text}
            with e.cv:
                r["refused"] = any("Unable to change" in x for _, x in e.out_lines[n:])
            time.sleep(0.15)
            for clock in (200, 200):
                cpu0, n = e.cpu_ns(), e.n_out()
                e.send(f"go wtime {clock} btime {clock}")
                got = e.wait_line(lambda x: x.startswith("bestmove"), n, 60.0)
                cpu1 = e.cpu_ns()
                if got is None:
                    v, sig, text = crash_or_hang(e, f"go wtime {clock} after a refused Hash {hash_mb}")
                    return {**r, "verdict": v, "signature": f"c14.{sig}", "what": text}
                if cpu0 is not None and cpu1 is not None and (cpu1 - cpu0) / 1e6 > clock:
                    return {**r, "verdict": "violated", "signature": "c14.flagged.after-option-in-bestmove-window",
                            "what": f"'setoption name Hash value {hash_mb}' sent right after a bestmove ({'refused' if r['refused'] else 'accepted'}), then "
                                    f"'go wtime {clock} btime {clock}' consumed {(cpu1 - cpu0) / 1e6:.0f} ms of the engine's own CPU time"}
        finally:
            e.close()
        return r

    for hash_mb in ([1024, 768, 512, 1000] if thorough else [1024, 640]):
        r = refused_option_session(hash_mb)
        out.evaluations += 1
        out.features["timed_searches_after_option_in_bestmove_window"] = out.features.get("timed_searches_after_option_in_bestmove_window", 0) + 1
        if r.get("refused"):
            out.features["timed_searches_after_refused_option"] = out.features.get("timed_searches_after_refused_option", 0) + 1
        if r["verdict"] == "violated":
            out.add_violation("timed-release", r["signature"], r["what"], {"kind": "py", "check": "c14-refused", "hash": hash_mb})
        elif r["verdict"] == "inconclusive":
            out.add_inconclusive({"stage": "timed-release", "what": r["what"]})

    # a short clock right after a long search in the same process: nothing the long search left behind (node counters,
    # poll schedules) may delay the moment the short one looks at its clock
    def after_long_search_session(long_cmd):
        e = Engine(binary)
        try:
            e.send("setoption name Hash value 16")
            if not settle(e, 60.0):
                return {"verdict": "inconclusive", "what": "engine not ready"}
            for k in range(4):
                pos = roomy_positions[k % len(roomy_positions)]
                e.send(position_cmd(pos["root"], pos["moves"]))
                if k == 0:
                    if ask(e, long_cmd, lambda x: x.startswith("bestmove"), 120.0) is None:
                        v, sig, text = crash_or_hang(e, long_cmd)
                        return {"verdict": v, "signature": f"c14.{sig}", "what": text}
                clock = (400, 1000, 600, 1600)[k]
                go = f"go wtime {clock} btime {clock} movestogo 1"
                cpu0, n = e.cpu_ns(), e.n_out()
                e.send(go)
                got = e.wait_line(lambda x: x.startswith("bestmove"), n, 60.0)
                cpu1 = e.cpu_ns()
                if got is None:
                    v, sig, text = crash_or_hang(e, f"{go} after {long_cmd}")
                    if v == "inconclusive" and cpu0 is not None and cpu1 is not None and (cpu1 - cpu0) / 1e6 > clock:
                        v, sig, text = "violated", "flagged.after-long-search", f"'{go}' after '{long_cmd}' in the same process: no move after {(cpu1 - cpu0) / 1e6:.0f} ms of the engine's own CPU time"
                    return {"verdict": v, "signature": f"c14.{sig}", "what": text}
                if cpu0 is not None and cpu1 is not None and (cpu1 - cpu0) / 1e6 > clock:
                    return {"verdict": "violated", "signature": "c14.flagged.after-long-search",
                            "what": f"'{go}' right after '{long_cmd}' in the same process consumed {(cpu1 - cpu0) / 1e6:.0f} ms of the engine's own CPU time"}
                # with one move to go the hard limit is half the clock; a search that goes on thinking 150 ms of its own
                # CPU time beyond that is not enforcing it (the release binary polls every 10 000 nodes, i.e. every 3 ms)
                if cpu0 is not None and cpu1 is not None and (cpu1 - cpu0) / 1e6 > clock / 2 + 150:
                    return {"verdict": "violated", "signature": "c14.hard-limit-not-enforced.after-long-search",
                            "what": f"'{go}' right after '{long_cmd}' in the same process: the hard limit is at most {clock // 2} ms, the search consumed {(cpu1 - cpu0) / 1e6:.0f} ms of the engine's own CPU time"}
            return {"verdict": "held"}
        finally:
            e.close()

    for long_cmd in (["go movetime 3000", "go depth 14", "go movetime 8000"] if thorough else ["go movetime 2500", "go depth 12"]):
        r = after_long_search_session(long_cmd)
        out.evaluations += 1
        out.features["timed_searches_right_after_a_long_search"] = out.features.get("timed_searches_right_after_a_long_search", 0) + 1
        if r["verdict"] == "violated":
            out.add_violation("timed-release", r["signature"], r["what"], {"kind": "py", "check": "c14-afterlong", "long": long_cmd})
        elif r["verdict"] == "inconclusive":
            out.add_inconclusive({"stage": "timed-release", "what": r["what"]})

    # The clock runs from 'go', not from whenever the search thread gets going. The search thread is held up (hook H3,
    # before it takes the tables - as a busy machine or a still-locked table would hold it up) for LONGER than the whole
    # clock; when it wakes up every limit has passed, so it may finish the iteration it must make and nothing more. Judged
    # on what it reports, not on a stopwatch: a correct engine reports depth 1 only.
    def late_start_session(clock, delay):
        e = Engine(binary, {"VERIF_UCI_DELAYS": f"go.before_lock={delay}"})
        try:
            e.send("setoption name Hash value 16")
            if not settle(e, 60.0):
                return {"verdict": "inconclusive", "what": "engine not ready"}
            pos = roomy_positions[1 % len(roomy_positions)]
            e.send(position_cmd(pos["root"], pos["moves"]))
            n = e.n_out()
            go = f"go wtime {clock} btime {clock}"
            e.send(go)
            got = e.wait_line(lambda x: x.startswith("bestmove"), n, 90.0)
            if got is None:
                v, sig, text = crash_or_hang(e, f"{go} with the search thread held up for {delay} ms")
                return {"verdict": v, "signature": f"c14.{sig}", "what": text}
            with e.cv:
                depths = [int(x.split()[2]) for _, x in e.out_lines[n:got[0]] if x.startswith("info depth") and x.split()[2].isdigit()]
            r = {"verdict": "held", "max_depth": max(depths or [0])}
            if r["max_depth"] >= 3:
                r.update({"verdict": "violated", "signature": "c14.clock-not-charged-before-search-start",
                          "what": f"'{go}' with the search thread held up for {delay} ms before it could start (longer than the whole clock): it "
                                  f"then went on to think up to depth {r['max_depth']} instead of answering at once - the time before the search "
                                  f"starts is not charged to the clock"})
            return r
        finally:
            e.close()

    for clock, delay in ([(1000, 1300), (300, 500), (5000, 5400)] if thorough else [(1000, 1300), (300, 500)]):
        r = late_start_session(clock, delay)
        out.evaluations += 1
        out.features["timed_searches_whose_thread_started_after_the_clock_ran_out"] = out.features.get("timed_searches_whose_thread_started_after_the_clock_ran_out", 0) + 1
        out.extra["x_max_depth_reported_after_late_start"] = max(out.extra.get("x_max_depth_reported_after_late_start", 0), r.get("max_depth", 0))
        if r["verdict"] == "violated":
            out.add_violation("timed-release", r["signature"], r["what"], {"kind": "py", "check": "c14-late", "clock": clock, "delay": delay})
        elif r["verdict"] == "inconclusive":
            out.add_inconclusive({"stage": "timed-release", "what": r["what"]})

    mt_cases = []
    # middlegame-like positions far from the fifty-move boundary, so that the search cannot run out of depth
    roomy = [p for p in positions if int(p["fen"].split()[4]) < 40 and sum(c.isalpha() for c in p["fen"].split()[0]) >= 12] or positions
    for _ in range(60 if thorough else 8):
        mt_cases.append((rng.choice(roomy), rng.choice([0, 100, 1000, 1000]), rng.choice([300, 800, 1500])))

    def mt_work(c):
        r = movetime_case(c)
        with lock:
            out.evaluations += 1
            out.features["movetime_with_overhead_cases"] = out.features.get("movetime_with_overhead_cases", 0) + 1
            if r["verdict"] == "violated":
                out.add_violation("movetime-release", r["signature"], r["what"], {"kind": "py", "check": "c14-movetime", "case": [c[0], c[1], c[2]]})
            elif r["verdict"] == "inconclusive":
                out.add_inconclusive({"stage": "movetime-release", "what": r["what"]})

    with ThreadPoolExecutor(max_workers=4) as ex:
        list(ex.map(mt_work, mt_cases))
    out.groups["c14-timed"] = len({(c[0]["fen"], c[1], c[2], c[3]) for c in cases})
    if margins:
        worst = max(margins)
        out.extra["x_worst_cpu_fraction_of_clock"] = {"fraction": round(worst[0], 3), "clock_ms": worst[1], "cpu_ms": worst[2], "wall_ms": worst[3]}
        out.samples.append({"timed_case": {"clock_ms": worst[1], "cpu_ms": worst[2], "wall_ms": worst[3]}})
    out.rules.append("timed searches on the release binary (clocks >= 200 ms x increments x moves-to-go): verdict by the engine's "
                     "process CPU clock (CPU > clock => certainly overran; wall > clock >= CPU => machine load, inconclusive)")
    out.stage_info.append({"stage": "timed", "evaluations": len(cases)})


# ---------------------------------------------------------------------------------------
# C04 — process-level: the real search thread (2 MiB stack, panic=abort in release)

DEEP_ROOTS = ["8/8/8/p7/P7/8/8/K6k w - - 0 1", "8/p7/P7/8/8/8/8/K1k5 w - - 0 1", "k6K/8/8/8/p7/P7/8/8 b - - 0 1"]


def c04_session(binary, plan, wait=60.0):
    e = Engine(binary)
    res = []
    try:
        for (pos, go, pre) in plan:
            r = {"verdict": "held", "pos": pos["fen"], "go": go}
            for c in pre:
                e.send(c)
            e.send(position_cmd(pos["root"], pos["moves"]))
            n = e.n_out()
            e.send(go)
            if "infinite" in go:
                time.sleep(0.05)
                e.send("stop")
            got, t_end = None, now() + wait
            while got is None and now() < t_end:
                got = e.wait_line(lambda x: x.startswith("bestmove"), n, min(5.0, max(0.1, t_end - now())))
                if got is None and (e.saw_panic() or not e.alive()):
                    break  # a panic message is out: the answer will not come, no need to sit out a long wait
            with e.cv:
                sd = [int(x.split()[4]) for _, x in e.out_lines[n:] if x.startswith("info depth") and len(x.split()) > 4 and x.split()[3] == "seldepth" and x.split()[4].isdigit()]
            r["max_seldepth"] = max(sd or [0])
            if got is None:
                v, sig, text = crash_or_hang(e, f"'{go}' in {pos['fen']}")
                r.update({"verdict": v, "signature": f"c04.binary.{sig}", "what": text})
                res.append(r)
                break  # violated or inconclusive: never reuse an engine whose answer went missing (a late answer would be
                # attributed to the next question)
            if got[1].split()[1] not in pos["legal"]:
                r.update({"verdict": "violated", "signature": "c04.binary.illegal-bestmove", "what": f"'{got[1]}' is not legal in {pos['fen']} ({go})"})
            res.append(r)
            if r["verdict"] != "held":
                break
        p = e.saw_panic()
        if p and all(r["verdict"] == "held" for r in res):
            res.append({"verdict": "violated", "signature": "c04.binary.crash", "what": p[:300], "pos": "", "go": ""})
    finally:
        hist = e.history(80)
        e.close()
    for r in res:
        if r["verdict"] != "held":
            r["history"] = hist
    return res


def c04_stage(out, tier, seed):
    thorough = tier == "thorough"
    harness = vc.build_harness("checked")
    bins = [("release", vc.build_repo("release")), ("debug", vc.build_repo("debug"))]
    positions = oracle_positions(harness, 120 if thorough else 40, seed + 4)
    mates = []
    for f in ["8/6k1/8/2R5/8/1K6/3Q1p2/8 w - - 1 25", "8/8/8/8/8/2k5/8/K2Q4 w - - 0 1", "7k/8/5K2/8/8/8/8/6Q1 w - - 0 1",
              "8/8/8/8/8/5k2/8/4K2r b - - 0 1", "k7/2Q5/8/2K5/8/8/8/8 w - - 10 1"]:
        lines = oracle(harness, "legal", ["--fen", f])
        legal = [x for x in lines if x.startswith("moves ")][0].split()[1:]
        mates.append({"root": f, "moves": "", "fen": f, "legal": legal})
    rng = random.Random(seed * 17 + 4)
    sessions = []
    n_sessions = 120 if thorough else 24
    for i in range(n_sessions):
        plan = []
        long_chain = i % 8 in (0, 3)
        steps = 270 if long_chain else rng.randint(3, 10)
        for _ in range(steps):
            pos = rng.choice(mates) if rng.random() < 0.25 else rng.choice(positions)
            if long_chain:
                go = "go depth 1"
            else:
                go = rng.choice(["go depth 1", "go depth 3", "go depth 5", "go depth 6", "go movetime 5", "go movetime 30",
                                 "go wtime 100 btime 100", "go wtime 5 btime 5 movestogo 1", "go infinite",
                                 "go depth 9" if pos in mates else "go depth 4", "go depth 14" if pos in mates else "go depth 2"])
            pre = []
            if rng.random() < 0.1:
                pre.append(f"setoption name Hash value {rng.choice([0, 1, 2, 16])}")
            if rng.random() < 0.08:
                pre.append("ucinewgame")
            plan.append((pos, go, pre))
        sessions.append((bins[i % 2], plan, long_chain))
    # deepest recursion of the REAL search thread (its stack is the one the engine itself sets up): blocked pawn
    # endings, where iterative deepening reaches three-digit depths within seconds and lines run up to the
    # fifty-move horizon. Fixed depths, so the recursion depth reached does not depend on machine load.
    deep = []
    for f in DEEP_ROOTS:
        lines = oracle(harness, "legal", ["--fen", f])
        deep.append({"root": f, "moves": "", "fen": f, "legal": [x for x in lines if x.startswith("moves ")][0].split()[1:]})
    deep_plans = [(bins[0], deep[0], 255 if thorough else 150), (bins[0], deep[1], 255 if thorough else 150),
                  (bins[1], deep[0], 150 if thorough else 110)]
    if thorough:
        deep_plans += [(bins[0], deep[2], 255), (bins[1], deep[1], 150)]
    for b, pos, d in deep_plans:
        sessions.insert(0, (b, [(pos, f"go depth {d}", ["setoption name Hash value 64"])], "deep"))
    # searches at the end of very long games (820..2500 plies in the record the search clones and extends)
    for j, g in enumerate(oracle_games(harness, 6 if thorough else 3, seed + 40, 150, long=6 if thorough else 3)):
        if "long_game" in g["features"] and g["replies"]:
            pos = {"root": g["root"], "moves": g["moves"], "fen": g["fens"][1], "legal": g["replies"]}
            sessions.insert(0, (bins[j % 2], [(pos, "go depth 6", []), (pos, "go movetime 50", [])], "longgame"))
    lock = threading.Lock()
    distinct = set()

    def work(s):
        (bname, binary), plan, long_chain = s
        if long_chain == "deep":
            res = c04_session(binary, plan, wait=1500.0)
            with lock:
                for r in res:
                    out.features[f"binary_deep_recursion_searches_{bname}"] = out.features.get(f"binary_deep_recursion_searches_{bname}", 0) + 1
                    k = f"binary_max_seldepth_{bname}"
                    out.extra["x_" + k] = max(out.extra.get("x_" + k, 0), r.get("max_seldepth", 0))
                    if r.get("max_seldepth", 0) >= (100 if bname == "release" else 66):
                        out.features[f"binary_{bname}_recursion_{100 if bname == 'release' else 66}_plies_plus"] = out.features.get(f"binary_{bname}_recursion_{100 if bname == 'release' else 66}_plies_plus", 0) + 1
            long_chain = False
        elif long_chain == "longgame":
            res = c04_session(binary, plan, wait=300.0)
            with lock:
                out.features["binary_searches_after_games_of_800_plies_or_more"] = out.features.get("binary_searches_after_games_of_800_plies_or_more", 0) + len(res)
                out.extra["x_longest_game_record_searched_plies"] = max(out.extra.get("x_longest_game_record_searched_plies", 0), len(plan[0][0]["moves"].split()))
            long_chain = False
        else:
            res = c04_session(binary, plan)
        with lock:
            out.evaluations += len(res)
            out.features[f"binary_searches_{bname}"] = out.features.get(f"binary_searches_{bname}", 0) + len(res)
            if long_chain:
                out.features["binary_chain_crossing_256_searches"] = out.features.get("binary_chain_crossing_256_searches", 0) + 1
            for r in res:
                distinct.add((bname, r["pos"], r["go"]))
                if r["verdict"] == "violated":
                    out.add_violation(f"binary-{bname}", r["signature"], r["what"], {"kind": "py", "check": "c04", "binary": bname, "plan": plan, "history": r.get("history")})
                elif r["verdict"] == "inconclusive":
                    out.add_inconclusive({"stage": f"binary-{bname}", "what": r["what"]})

    with ThreadPoolExecutor(max_workers=10) as ex:
        list(ex.map(work, sessions))
    out.groups["c04-binary"] = len(distinct)
    out.samples.append({"binary_session": [(p["fen"], g, pre) for (p, g, pre) in sessions[1][1][:5]]})
    out.rules.append("process-level: sessions of searches on the real debug (overflow checks) and release (panic=abort, 2 MiB "
                     "search-thread stack) binaries, incl. 270 searches without ucinewgame, Hash 0, infinite+stop, and fixed-depth "
                     "searches of blocked pawn endings to depth 110..255 (selective depth >= 100 in release, >= 66 in debug: the "
                     "deepest recursion the real search thread's stack has to hold): bestmove "
                     "legal per refchess, no panic output, process alive")
    out.stage_info.append({"stage": "binary-sessions", "sessions": len(sessions)})


# ---------------------------------------------------------------------------------------
# C08 — process-level: the 'info ... pv ...' lines the real binary prints

INFO_RE = re.compile(r"^info depth (\d+) .*?score (cp|mate) (-?\d+) .*? pv (.+)$")


GO_SUFFIX = ["", " movetime 4000", " wtime 120000 btime 120000 winc 1000 binc 1000"]


def c08_session(binary, plan):
    """plan: list of (pos, depth). Returns text blocks for the oracle."""
    e = Engine(binary)
    blocks = []
    try:
        e.send("setoption name Hash value 16")
        settle(e, 60)
        for k, (pos, depth, newgame) in enumerate(plan):
            if newgame:
                e.send("ucinewgame")
            e.send(position_cmd(pos["root"], pos["moves"]))
            n = e.n_out()
            # every third search carries a time limit as well as the depth limit: both bind
            if isinstance(depth, str):
                e.send(f"go {depth}")  # no depth limit at all
            else:
                e.send(f"go depth {depth}" + GO_SUFFIX[k % 3 if depth <= 4 else 0])
            got = e.wait_line(lambda x: x.startswith("bestmove"), n, 120.0)
            if got is None:
                # the lines reported so far are still judged; a crash is reported to the stage as such
                v, sig, text = crash_or_hang(e, f"'go {depth}' on {pos['fen']}")
                with e.cv:
                    got = (len(e.out_lines), "")
                blocks.append((pos, depth, ["crash" if v == "violated" else "silent", sig, text]))
            with e.cv:
                lines = [x for _, x in e.out_lines[n:got[0]]]
            blk = [f"search\t{pos['root']}\t{pos['moves']}\t{'-' if isinstance(depth, str) else depth}"]
            for x in lines:
                m = INFO_RE.match(x)
                if m:
                    blk.append(f"info\t{m.group(1)}\t{m.group(2)}\t{m.group(3)}\t{m.group(4)}")
                elif x.startswith("info depth"):
                    blk.append(f"info\t{x.split()[2]}\tcp\t0\t")  # a line without pv: the oracle flags the empty line
            blocks.append((pos, depth, blk))
            if got[1] == "":
                break  # never reuse an engine whose answer went missing
    finally:
        e.close()
    return blocks


LINE_OK = re.compile(r"^(info depth \d+ seldepth \d+ score (cp|mate) -?\d+ time \d+ nodes \d+ nps \d+ hashfull \d+ tbhits \d+ pv( [a-h][1-8][a-h][1-8][qrbn]?)+|bestmove [a-h][1-8][a-h][1-8][qrbn]?|readyok)$")


def c08_flood_session(binary, positions, n_searches, depth):
    """Searches during which the GUI keeps asking 'isready': two threads write to one stdout. Every line that comes out
    must be ONE well-formed response (an info line, a bestmove, a readyok) - returns the list of lines that are not."""
    e = Engine(binary)
    bad = []
    stats = {"pings": 0, "info": 0, "searches": 0}
    try:
        e.send("setoption name Hash value 16")
        if not settle(e, 60):
            return None, stats
        for k in range(n_searches):
            pos = positions[k % len(positions)]
            e.send(position_cmd(pos["root"], pos["moves"]))
            n = e.n_out()
            e.send(f"go depth {depth}")
            sent = 0
            while sent < 4000:
                with e.cv:
                    done = any(x.startswith("bestmove") or "bestmove " in x for _, x in e.out_lines[n:])
                if done or not e.alive():
                    break
                for _ in range(8):
                    e.send("isready")
                sent += 8
            got = e.wait_line(lambda x: "bestmove " in x, n, 120.0)
            if got is None:
                break
            settle(e, 60)
            with e.cv:
                lines = [x for _, x in e.out_lines[n:]]
            stats["pings"] += sent
            stats["searches"] += 1
            for x in lines:
                if x.startswith("info depth"):
                    stats["info"] += 1
                if x and not LINE_OK.match(x):
                    bad.append((pos["fen"], x))
            if bad:
                break
    finally:
        e.close()
    return bad, stats


def c08_stage(out, tier, seed):
    import os  # noqa: PLC0415
    import subprocess  # noqa: PLC0415
    thorough = tier == "thorough"
    harness = vc.build_harness("checked")
    bins = [("release", vc.build_repo("release"))]
    if thorough:
        bins.append(("debug", vc.build_repo("debug")))
    positions = oracle_positions(harness, 200 if thorough else 60, seed + 8)
    mates = []
    for f in ["8/6k1/8/2R5/8/1K6/3Q1p2/8 w - - 1 25", "8/8/8/8/8/2k5/8/K2Q4 w - - 0 1", "7k/8/5K2/8/8/8/8/6Q1 w - - 0 1",
              "8/8/8/8/8/5k2/8/4K2r b - - 0 1", "k7/2Q5/8/2K5/8/8/8/8 w - - 10 1", "6k1/5ppp/8/8/8/8/8/R3K3 w Q - 0 1",
              "r5k1/5ppp/8/8/8/8/5PPP/4R1K1 w - - 0 1", "8/8/8/8/8/6k1/4q3/7K w - - 0 1"]:
        mates.append({"root": f, "moves": "", "fen": f, "legal": []})
    rng = random.Random(seed * 71 + 8)
    sessions = []
    for i in range(80 if thorough else 16):
        plan = []
        for _ in range(rng.randint(4, 10)):
            pos = rng.choice(mates) if rng.random() < 0.35 else rng.choice(positions)
            plan.append((pos, rng.choice([1, 3, 5, 6, 7, 8] if pos in mates else [0, 1, 2, 4, 5, 6]), rng.random() < 0.15))
        sessions.append((bins[i % len(bins)], plan))
    # the longest lines: simple endings searched to depth 26..60 report lines of 30..45 plies (info lines of 250..330
    # bytes); every one of them is replayed move by move like the short ones
    long_roots = [("8/8/4k3/8/8/4K3/4P3/8 w - - 0 1", 32), ("8/p7/P7/8/8/8/8/K1k5 w - - 0 1", 60), ("8/8/8/p7/P7/8/8/K6k w - - 0 1", 60),
                  ("8/8/8/8/8/2k5/8/K2R4 w - - 0 1", 26), ("4k3/4p3/8/4K3/8/8/8/8 b - - 0 1", 32)]
    for j, (f, d) in enumerate(long_roots):
        pos = {"root": f, "moves": "", "fen": f, "legal": []}
        for b in (bins if thorough else bins[:1]):
            sessions.append((b, [(pos, d if b[0] == "release" else min(d, 36) - 6, False)]))
    # no depth limit and a tree that collapses: iterative deepening runs through every depth it has (1..255) within
    # milliseconds and then has to stop counting
    for f in ["8/8/8/2k5/8/8/1p6/1K6 w - - 0 1", "8/8/8/4k3/8/8/8/4K2B w - - 0 1", "8/8/8/4k3/8/8/8/4K3 b - - 0 1"]:
        pos = {"root": f, "moves": "", "fen": f, "legal": []}
        for b in bins:
            sessions.append((b, [(pos, "movetime 150", False), (pos, "wtime 3000 btime 3000", False)]))
    with ThreadPoolExecutor(max_workers=10) as ex:
        results = list(ex.map(lambda s: (s[0][0], c08_session(s[0][1], s[1])), sessions))
    all_blocks = []
    owners = []
    for bname, blocks in results:
        for (pos, depth, blk) in blocks:
            if blk and blk[0] in ("crash", "silent"):
                if blk[0] == "crash":
                    out.add_violation(f"lines-binary-{bname}", f"c08.binary.{blk[1]}", blk[2], {"kind": "py", "check": "c08", "binary": bname, "pos": pos, "depth": depth})
                else:
                    out.add_inconclusive({"stage": f"lines-binary-{bname}", "what": blk[2]})
                continue
            all_blocks.extend(blk)
            owners.append((bname, pos, depth))
            if isinstance(depth, str) and any(x.startswith("info\t255\t") for x in blk):
                out.features["binary_searches_running_out_of_depths"] = out.features.get("binary_searches_running_out_of_depths", 0) + 1
            longest = max([len(x.split("\t")[4].split()) for x in blk if x.startswith("info\t") and len(x.split("\t")) > 4] or [0])
            out.extra["x_longest_reported_line_plies"] = max(out.extra.get("x_longest_reported_line_plies", 0), longest)
            if longest >= 32:
                out.features["binary_searches_reporting_lines_of_32_plies_or_more"] = out.features.get("binary_searches_reporting_lines_of_32_plies_or_more", 0) + 1
    path = os.path.join(vc.BUILD, "tmp", f"c08-lines-{seed}.txt")
    open(path, "w").write("\n".join(all_blocks) + "\n")
    p = subprocess.run([harness, "oracle", "checklines", "--file", path], capture_output=True, text=True, timeout=600)
    if p.returncode != 0:
        out.errors.append(f"oracle checklines failed: {p.stderr[-400:]}")
        return
    for line in p.stdout.splitlines():
        f = line.split("\t")
        if f[0] == "bad":
            bname, pos, depth = owners[int(f[1])]
            out.add_violation(f"lines-binary-{bname}", f[2], f"{f[3][:400]} ['go depth {depth}' on {pos['fen']}]",
                              {"kind": "py", "check": "c08", "binary": bname, "pos": pos, "depth": depth})
        elif f[0] == "checked":
            out.evaluations += int(f[1])
            out.features["binary_searches_checked"] = int(f[1])
            out.features["binary_info_lines"] = int(f[2])
            out.features["binary_mate_announcements"] = int(f[3])
    # two threads, one stdout: searches with a flood of 'isready' from the GUI side
    roomy = [p for p in positions if sum(c.isalpha() for c in p["fen"].split()[0]) >= 14] or positions
    floods = [(b, roomy[i::4][:6] or roomy) for i, b in enumerate((bins * 4)[:4 if not thorough else 8])]
    with ThreadPoolExecutor(max_workers=4) as ex:
        fres = list(ex.map(lambda f: (f[0][0], c08_flood_session(f[0][1], f[1], 40 if thorough else 14, 6)), floods))
    for bname, (bad, st) in fres:
        out.features["binary_info_lines_during_isready_flood"] = out.features.get("binary_info_lines_during_isready_flood", 0) + st["info"]
        out.features["binary_isready_sent_during_searches"] = out.features.get("binary_isready_sent_during_searches", 0) + st["pings"]
        out.evaluations += st["searches"]
        if bad is None:
            out.add_inconclusive({"stage": f"lines-binary-{bname}", "what": "engine not ready for the flood session"})
            continue
        for fen, x in bad[:3]:
            out.add_violation(f"lines-binary-{bname}", "c08.garbled-output-line",
                              f"while 'isready' was being sent during a search of {fen} the engine printed the line '{x[:300]}', which is not one "
                              f"well-formed response", {"kind": "py", "check": "c08", "binary": bname, "pos": {"fen": fen}, "depth": 6})
    out.groups["c08-binary"] = len({(o[0], o[1]["fen"], o[2]) for o in owners})
    out.rules.append("process-level: every 'info depth .. score .. pv ..' line printed by the real binary for fixed-depth "
                     "searches (tables reused across a session; two in three searches of depth <= 4 also carry a movetime or a "
                     "clock, so that the depth limit binds next to a time limit) is judged by the same oracle")
    out.stage_info.append({"stage": "lines-binary", "searches": len(owners)})


# ---------------------------------------------------------------------------------------
# C11 — process-level: repetition against the game record handed over by 'position ... moves ...'

def c11_stage(out, tier, seed):
    """Games at whose end the side to move is hopelessly behind but has ONE move that re-creates a position of the game
    record (since the last capture or pawn move). A search treats the re-created position as a draw the moment it is
    reached, so whatever else it finds the root score cannot be below the draw score: final score >= 0."""
    thorough = tier == "thorough"
    harness = vc.build_harness("checked")
    bins = [("release", vc.build_repo("release"))]
    if thorough:
        bins.append(("debug", vc.build_repo("debug")))
    games = []
    for line in oracle(harness, "repgames", ["--n", 600 if thorough else 96, "--seed", seed]):
        f = line.split("\t")
        if f[0] == "rep":
            games.append({"root": f[1], "moves": f[2], "rep_move": f[3], "class": f[4], "legal": f[5].split()})
    lock = threading.Lock()
    per = 12
    batches = [(bins[(i // per) % len(bins)], games[i:i + per]) for i in range(0, len(games), per)]

    def work(b):
        (bname, binary), gs = b
        e = Engine(binary)
        # every other engine process goes from game to game without 'ucinewgame', as a GUI does when positions are
        # analysed one after the other: the record of the previous game must not show through
        newgame_between = zlib.crc32(gs[0]["moves"].encode()) % 2 == 0
        try:
            e.send("setoption name Hash value 16")
            if not settle(e, 60):
                out.add_inconclusive({"stage": f"repetition-{bname}", "what": "engine not ready"})
                return
            for k, g in enumerate(x for g0 in gs for x in (g0, dict(g0, again=True))):
                depth = (1, 3, 5, 2)[(k // 2) % 4]
                if not g.get("again"):
                    if newgame_between:
                        e.send("ucinewgame")
                    e.send(position_cmd(g["root"], g["moves"]))
                # (again: a second 'go' on the same 'position' command, as an analysis GUI restarts a search - the engine
                # must still know the game that led here)
                n = e.n_out()
                e.send(f"go depth {depth}")
                got = e.wait_line(lambda x: x.startswith("bestmove"), n, 120.0)
                if got is None:
                    v, sig, text = crash_or_hang(e, f"go depth {depth} after {position_cmd(g['root'], g['moves'])}")
                    with lock:
                        if v == "violated":
                            out.add_violation(f"repetition-{bname}", f"c11.binary.{sig}", text, {"kind": "py", "check": "c11", "binary": bname, "game": g, "depth": depth})
                        else:
                            out.add_inconclusive({"stage": f"repetition-{bname}", "what": text})
                    return
                with e.cv:
                    infos = [x for _, x in e.out_lines[n:got[0]] if x.startswith("info depth") and " score " in x]
                score = None
                if infos:
                    t = infos[-1].split()
                    i = t.index("score")
                    score = (t[i + 1], int(t[i + 2]))
                with lock:
                    out.evaluations += 1
                    key = "binary_repetition_" + g["class"].replace("-", "_").replace(".", "_")
                    out.features[key] = out.features.get(key, 0) + 1
                    out.features["binary_repetition_searches"] = out.features.get("binary_repetition_searches", 0) + 1
                    if g.get("again"):
                        out.features["binary_repetition_second_go_on_one_position_command"] = out.features.get("binary_repetition_second_go_on_one_position_command", 0) + 1
                    mv = got[1].split()[1] if len(got[1].split()) > 1 else "?"
                    if mv not in g["legal"]:
                        out.add_violation(f"repetition-{bname}", "c11.binary.illegal-bestmove", f"'{got[1]}' after {position_cmd(g['root'], g['moves'])}",
                                          {"kind": "py", "check": "c11", "binary": bname, "game": g, "depth": depth})
                    elif score is None:
                        out.add_inconclusive({"stage": f"repetition-{bname}", "what": "no info line with a score"})
                    elif (score[0] == "cp" and score[1] < 0) or (score[0] == "mate" and score[1] < 0):
                        out.add_violation(f"repetition-{bname}", "c11.binary.repetition-against-game-record-missed." + g["class"].split(".")[0],
                                          f"after '{position_cmd(g['root'], g['moves'])}' the move {g['rep_move']} re-creates a position of the game "
                                          f"record ({g['class']}), i.e. a draw, but {'a second ' if g.get('again') else ''}'go depth {depth}' reports score {score[0]} {score[1]} (bestmove {mv})",
                                          {"kind": "py", "check": "c11", "binary": bname, "game": g, "depth": depth})
        finally:
            e.close()

    with ThreadPoolExecutor(max_workers=12) as ex:
        list(ex.map(work, batches))

    # A 'position' command replaces the game, record included. Engine A is told game G; engine B is first told a longer
    # game G+ (G continued by a few more moves) and then G - no search in between, so the tables are untouched. The two
    # engines are then in the same state as far as any property is concerned, and a fixed-depth search is a function of that
    # state: the two transcripts must be equal. (If B still knows positions of G+, it scores moves that reach them as
    # repetitions although they never occurred in G.)
    def overwrite_case(i):
        bname, binary = bins[i % len(bins)]
        g = games[(i * 7) % len(games)]
        p = positions[(i * 5) % len(positions)]
        # G = a corpus position reached by moves, its root clock raised so that the scan window reaches back; G+ = G plus moves
        root_fields = (p["root"] if p["root"] != "startpos" else "rnbqkbnr/pppppppp/8/8/8/8/PPPPPPPP/RNBQKBNR w KQkq - 0 1").split()
        if i % 2 == 0:
            # a repetition game: G = its first two moves, G+ = the whole game
            mv = g["moves"].split()
            root, short, longer = g["root"], " ".join(mv[:max(0, len(mv) - 3)]), g["moves"]
            rf = root.split()
            rf[4] = str(max(int(rf[4]), 6))
            root = " ".join(rf)
        else:
            mv = p["moves"].split()
            if len(mv) < 4:
                return
            root_fields[4] = str(max(int(root_fields[4]), 8))
            root, short, longer = " ".join(root_fields), " ".join(mv[:len(mv) - 3]), " ".join(mv)
        depth = 4 + i % 3
        res = []
        for first in (None, longer):
            e = Engine(binary)
            try:
                e.send("setoption name Hash value 16")
                if not settle(e, 60):
                    return
                if first is not None:
                    e.send(position_cmd(root, first))
                res.append(transcript(e, {"root": root, "moves": short}, depth))
            finally:
                e.close()
        with lock:
            out.evaluations += 1
            out.features["binary_position_overwrite_comparisons"] = out.features.get("binary_position_overwrite_comparisons", 0) + 1
            if res[0] is None or res[1] is None:
                out.add_inconclusive({"stage": f"repetition-{bname}", "what": "no bestmove in an overwrite comparison"})
            elif res[0] != res[1]:
                diff = next((x, y) for x, y in zip(res[0] + [""], res[1] + [""]) if x != y)
                out.add_violation(f"repetition-{bname}", "c11.binary.stale-game-record",
                                  f"'position fen {root} moves {short}' + 'go depth {depth}' answers differently when a longer game "
                                  f"('... moves {longer}') was set up just before, with no search in between: '{diff[0]}' vs '{diff[1]}'",
                                  {"kind": "py", "check": "c11", "binary": bname, "game": {"root": root, "moves": short}, "depth": depth})

    positions = oracle_positions(harness, 40, seed + 11)
    with ThreadPoolExecutor(max_workers=10) as ex:
        list(ex.map(overwrite_case, range(60 if thorough else 20)))
    out.groups["c11-binary"] = len({(g["root"], g["moves"]) for g in games})
    if games:
        out.samples.append({"position_command": position_cmd(games[0]["root"], games[0]["moves"]), "repeating_move": games[0]["rep_move"], "class": games[0]["class"]})
    out.rules.append("process-level: games sent with 'position ... moves ...' in which the side to move is lost on material but "
                     "has one move re-creating an earlier position of the game record (the first position of the reversible tail - from "
                     "the FEN, after a capture, after a pawn move - or a later one; built and verified by refchess): the reported score "
                     "of a fixed-depth search must not be below the draw score")
    out.stage_info.append({"stage": "repetition-binary", "games": len(games)})


# ---------------------------------------------------------------------------------------
# C06 — process-level: 'position fen <hostile text>' must give a position or a reported error

def c06_stage(out, tier, seed):
    thorough = tier == "thorough"
    harness = vc.build_harness("checked")
    bins = [("release", vc.build_repo("release")), ("debug", vc.build_repo("debug"))]
    texts = [x.split("\t", 1)[1] for x in oracle(harness, "hostile", ["--n", 3000 if thorough else 400, "--seed", seed]) if x.startswith("text\t")]
    texts += ["44p/8/8/8/8/8/8/K6k w - - 0 1", "4k3/8/8/8/8/8/8/4K3 w - - 0 0", "4k3/8/8/8/8/8/8/4K3 w - - 0 4294967295"]
    lock = threading.Lock()

    def work(job):
        (bname, binary), text = job
        e = Engine(binary)
        verdict = None
        try:
            e.send(f"position fen {text}")
            ok = settle(e, 20.0)
            if ok:
                got = ask(e, "d fen", lambda x: x.startswith("FEN: "), 20.0)
                verdict = ("position", got)
            else:
                p = e.saw_panic()
                if p:
                    verdict = ("crash", p)
                else:
                    try:
                        e.proc.wait(timeout=5)
                    except Exception:  # noqa: BLE001
                        pass
                    with e.cv:
                        errs = [x for _, x in e.err_lines + e.out_lines]
                    reported = any("Invalid FEN" in x or "Error" in x for x in errs)
                    if not e.alive() and reported:
                        verdict = ("reported-error", errs[-1][:120])
                    elif not e.alive():
                        verdict = ("silent-exit", f"rc={e.proc.returncode}")
                    else:
                        verdict = ("hang", "")
        finally:
            hist = e.history(20)
            e.close()
        with lock:
            out.evaluations += 1
            out.features[f"binary_fen_{verdict[0]}"] = out.features.get(f"binary_fen_{verdict[0]}", 0) + 1
            if verdict[0] in ("crash", "silent-exit"):
                out.add_violation(f"fen-binary-{bname}", f"c06.binary.{verdict[0]}", f"'position fen {text}' -> {verdict[1][:300]}",
                                  {"kind": "py", "check": "c06", "binary": bname, "text": text, "history": hist})
            elif verdict[0] == "hang":
                out.add_inconclusive({"stage": f"fen-binary-{bname}", "what": f"no answer after position fen {text!r}"})

    jobs = [(bins[i % 2], t) for i, t in enumerate(texts)]
    with ThreadPoolExecutor(max_workers=14) as ex:
        list(ex.map(work, jobs))
    out.groups["c06-binary"] = len(set(texts))
    out.samples.append({"binary_fen_text": texts[3]})
    out.rules.append("process-level: 'position fen <corrupted text>' on the debug and release binaries must yield a position "
                     "(isready answered, 'd fen' prints) or a reported error ('Invalid FEN' and exit), never a panic or a "
                     "silent death")
    out.stage_info.append({"stage": "fen-binary", "texts": len(texts)})


# ---------------------------------------------------------------------------------------
# C12 — process-level: ucinewgame means a fresh engine; bench twice

def strip_info(line):
    # remove the wall-clock dependent fields
    return re.sub(r" (time|nps) \d+", "", line)


def transcript(e, pos, depth):
    if pos is not None:
        e.send(position_cmd(pos["root"], pos["moves"]))
    n = e.n_out()
    e.send(f"go depth {depth}")
    got = e.wait_line(lambda x: x.startswith("bestmove"), n, 120.0)
    if got is None:
        return None
    with e.cv:
        lines = [x for _, x in e.out_lines[n:got[0] + 1]]
    return [strip_info(x) for x in lines if x.startswith("info") or x.startswith("bestmove")]


def c12_stage(out, tier, seed):
    thorough = tier == "thorough"
    harness = vc.build_harness("checked")
    binary = vc.build_repo("release")
    positions = oracle_positions(harness, 60, seed + 12)
    rng = random.Random(seed * 53 + 12)
    n = 160 if thorough else 24
    lock = threading.Lock()

    def fresh_with(mb, target, depth):
        a = Engine(binary)
        try:
            a.send(f"setoption name Hash value {mb}")
            settle(a, 60)
            return transcript(a, target, depth)
        finally:
            a.close()

    def work(i):
        r = random.Random(seed * 1000 + i)
        # every third comparison searches whatever position the engine holds (a freshly started engine and
        # one that just got ucinewgame both hold the start position): state outside the tables counts too
        target = None if i % 3 == 2 else r.choice(positions)
        depth = r.choice([4, 5, 6, 7])
        hash_mb = r.choice([1, 2, 16])
        # fresh engine. In every fourth comparison it gets no preamble whatsoever - no uci, no isready, no option: the very
        # first thing it hears is the position and 'go' (default options on both sides of the comparison)
        bare = i % 4 == 3
        a = Engine(binary)
        if not bare:
            a.send(f"setoption name Hash value {hash_mb}")
            settle(a, 60)
        ta = transcript(a, target, depth)
        a.close()
        # engine with a history, then ucinewgame. Half of the comparisons hold the window between
        # "bestmove printed" and "search thread done" open (hook H3), with ucinewgame sent at once.
        delayed = i % 2 == 1
        b = Engine(binary, {"VERIF_UCI_DELAYS": "go.after_bestmove=30,go.after_latch_set=30"} if delayed else None)
        if not bare:
            b.send(f"setoption name Hash value {hash_mb}")
            settle(b, 60)
        hist = []
        lost = False
        # in every third history a different Hash value is sent right after one of the bestmoves. In the delayed sessions
        # this engine refuses it (the finished search thread still holds the tables); either way the engine after
        # ucinewgame must equal a fresh one with the options in force - the refused value or, if the engine chose to
        # apply it after all, the new one
        new_hash = r.choice([x for x in (1, 2, 16, 32) if x != hash_mb]) if (i % 3 == 1 and not bare) else None
        refused = False
        n_hist = r.randint(1, 6)
        opt_at = r.randrange(n_hist)
        for k in range(n_hist):
            p = r.choice(positions)
            d = r.choice([2, 4, 6, 7])
            hist.append((p["fen"], d))
            if transcript(b, p, d) is None:
                lost = True  # an answer went missing: a late one could be attributed to the next search
                break
            if new_hash is not None and k == opt_at:
                n0 = b.n_out()
                b.send(f"setoption name Hash value {new_hash}")
                hist.append(("setoption Hash", new_hash))
                if not settle(b, 120):
                    lost = True
                    break
                with b.cv:
                    refused = any("Unable to change" in x for _, x in b.out_lines[n0:])
        tb = None
        if not lost:
            b.send("ucinewgame")
            if settle(b, 120):
                tb = transcript(b, target, depth)
        crashed = b.saw_panic() or a.saw_panic()
        b.close()
        t2 = None
        if new_hash is not None and ta is not None and tb is not None and ta != tb:
            t2 = fresh_with(new_hash, target, depth)
        with lock:
            out.evaluations += 1
            out.features["binary_ucinewgame_comparisons"] = out.features.get("binary_ucinewgame_comparisons", 0) + 1
            if bare:
                out.features["binary_fresh_engine_without_any_preamble"] = out.features.get("binary_fresh_engine_without_any_preamble", 0) + 1
            if target is None:
                out.features["binary_ucinewgame_then_go_without_position"] = out.features.get("binary_ucinewgame_then_go_without_position", 0) + 1
            if new_hash is not None:
                out.features["binary_histories_with_option_change" + ("_refused" if refused else "_accepted")] = out.features.get("binary_histories_with_option_change" + ("_refused" if refused else "_accepted"), 0) + 1
            if delayed:
                out.features["binary_ucinewgame_right_after_bestmove_with_delay"] = out.features.get("binary_ucinewgame_right_after_bestmove_with_delay", 0) + 1
            if ta is None or tb is None:
                if crashed:
                    out.features["binary_crash_not_judged_here"] = out.features.get("binary_crash_not_judged_here", 0) + 1
                else:
                    out.add_inconclusive({"stage": "ucinewgame-binary", "what": "no bestmove within 120 s"})
            elif new_hash is not None and ta != tb and t2 == tb:
                # the engine applied the new value (at once, or at ucinewgame): a fresh engine with that value agrees
                out.features["binary_ucinewgame_fresh_with_the_new_option_value"] = out.features.get("binary_ucinewgame_fresh_with_the_new_option_value", 0) + 1
            elif new_hash is not None and not refused and ta != tb:
                diff = next((x, y) for x, y in zip((t2 or []) + [""], tb + [""]) if x != y)
                out.add_violation("ucinewgame-binary", "c12.binary.ucinewgame-not-fresh",
                                  f"after {len(hist)} steps incl. an accepted 'setoption name Hash value {new_hash}' and ucinewgame, 'go depth {depth}' differs from a freshly started engine with Hash {new_hash}: fresh '{diff[0]}' vs '{diff[1]}'",
                                  {"kind": "py", "check": "c12", "target": target, "depth": depth, "hash": hash_mb, "history": hist})
            elif ta != tb:
                diff = next((x, y) for x, y in zip(ta + [""], tb + [""]) if x != y)
                out.add_violation("ucinewgame-binary", "c12.binary.ucinewgame-not-fresh",
                                  f"after {len(hist)} searches and ucinewgame, 'go depth {depth}' on {target['fen'] if target else 'the position held (no position command sent)'} differs from a freshly started engine: fresh '{diff[0]}' vs '{diff[1]}'",
                                  {"kind": "py", "check": "c12", "target": target, "depth": depth, "hash": hash_mb, "history": hist})

    def bench_case(_):
        # the built-in benchmark run inside a session: afterwards 'ucinewgame' must still give a fresh engine with the
        # options in force (the benchmark may not leave a table of its own size behind)
        target = positions[0]
        a = Engine(binary)
        ta = transcript(a, target, 8)
        a.close()
        b = Engine(binary)
        try:
            got = ask(b, "bench", lambda x: " nodes " in x and x.endswith("nps"), 900.0)
            tb = None
            if got is not None:
                b.send("ucinewgame")
                if settle(b, 120):
                    tb = transcript(b, target, 8)
        finally:
            b.close()
        with lock:
            out.evaluations += 1
            out.features["binary_ucinewgame_after_bench_in_session"] = out.features.get("binary_ucinewgame_after_bench_in_session", 0) + 1
            if ta is None or tb is None:
                out.add_inconclusive({"stage": "ucinewgame-binary", "what": "bench or a search did not finish in time"})
            elif ta != tb:
                diff = next((x, y) for x, y in zip(ta + [""], tb + [""]) if x != y)
                out.add_violation("ucinewgame-binary", "c12.binary.ucinewgame-not-fresh.after-bench",
                                  f"after 'bench' and ucinewgame, 'go depth 8' on {target['fen']} differs from a freshly started engine: fresh '{diff[0]}' vs '{diff[1]}'",
                                  {"kind": "py", "check": "c12", "target": target, "depth": 8, "hash": 256, "history": ["bench"]})

    with ThreadPoolExecutor(max_workers=10) as ex:
        fb = ex.submit(bench_case, 0)
        list(ex.map(work, range(n)))
        fb.result()
    out.groups["c12-binary"] = n
    if thorough:
        totals = []
        for _ in range(2):
            e = Engine(binary)
            got = ask(e, "bench", lambda x: " nodes " in x and x.endswith("nps"), 900.0)
            e.close()
            totals.append(got.split()[0] if got else None)
        out.features["bench_runs"] = 2
        out.extra["x_bench_node_totals"] = totals
        if totals[0] is None or totals[1] is None:
            out.add_inconclusive({"stage": "bench", "what": "bench did not finish within 900 s"})
        elif totals[0] != totals[1]:
            out.add_violation("bench", "c12.binary.bench-differs", f"two runs of 'bench' report {totals[0]} and {totals[1]} nodes", {"kind": "py", "check": "c12-bench"})
    out.rules.append("process-level: the info/bestmove lines (time and nps removed) of a fixed-depth search on a freshly started "
                     "release binary vs the same search after an arbitrary history followed by ucinewgame")
    out.stage_info.append({"stage": "ucinewgame-binary", "comparisons": n})


# ---------------------------------------------------------------------------------------

def replay(pid, rec, path):
    """Replays of process-level cases: re-run the recorded session on the recorded binary."""
    r = rec["replay"]
    check = r.get("check")
    out = vc.Outcome(pid, "quick", rec.get("seed", 1), "exploration")
    if False:
        pass
    elif check == "c04":
        res = c04_session(vc.build_repo(r["binary"]), [tuple(x) for x in r["plan"]])
        bad = [x for x in res if x["verdict"] == "violated"]
    elif check == "c14":
        pos, clock, inc, mtg = r["case"]
        res = [c14_timed(vc.build_repo("release"), pos, clock, inc, mtg, True) for _ in range(3)]
        bad = [x for x in res if x["verdict"] == "violated"]
    elif check == "c06":
        c = vc.Outcome(pid, "quick", 1, "exploration")
        e = Engine(vc.build_repo(r["binary"]))
        e.send(f"position fen {r['text']}")
        ok = settle(e, 20.0)
        p = e.saw_panic()
        e.close()
        bad = [{"signature": "c06.binary.crash", "what": p}] if p else []
        _ = (c, ok)
    else:
        # Generic replay: the workloads are functions of (seed, tier), so the recorded case is re-created by
        # re-running the stage it came from with the recorded seed, and looking for the same signature.
        stage_fn = {"c05": None, "c08": c08_stage, "c12": c12_stage, "c12-bench": c12_stage, "c14-movetime": c14_stage,
                    "c14-long": c14_stage, "c14-refused": c14_stage, "c14-late": c14_stage, "c14-afterlong": c14_stage, "c17-ep": c17_stage, "c17": c17_stage, "c13": c13_stage,
                    "c11": c11_stage}.get(check)
        if stage_fn is None:
            print(f"no replay procedure for process-level check {check}")
            return 2
        stage_fn(out, rec.get("tier", "quick"), rec.get("seed", 1))
        bad = [{"signature": v["signature"], "what": v["what"]} for v in out.violations if v["signature"] == rec.get("signature")]
        others = [v["signature"] for v in out.violations if v["signature"] != rec.get("signature")]
        if others and not bad:
            print(f"the recorded signature did not recur, but the stage reports: {sorted(set(others))}")
            bad = [{"signature": v["signature"], "what": v["what"]} for v in out.violations]
    _ = out
    if bad:
        for b in bad[:3]:
            print(f"REPRODUCED property={pid} {b.get('signature')}: {str(b.get('what'))[:300]}")
        print(f"VIOLATION property={pid} replay={path}")
        return 1
    print(f"replay ran clean: the recorded case no longer violates {pid}")
    return 0
