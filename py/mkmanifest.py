#!/usr/bin/env python3
"""Regenerates /verif/MANIFEST.json from the table below (run after adding a check)."""
import json
import os
import subprocess

VERIF = os.path.dirname(os.path.dirname(os.path.abspath(__file__)))

# property id -> (level category, technique, level text, level note, design ref)
CHECKS = {
    "C01": ("exploration",
            "differential runtime monitor: engine move list vs independent reference rules model on every visited position",
            "Every position of a DFS over ~160 corpus roots, biased random playouts, synthesised legal positions "
            "(incl. extreme material) and five hazard families enumerated completely over their parameter space "
            "(en passant x king x slider, castling x attacker, pin geometry, promotion x checker, double check) is "
            "compared move-for-move and flag-for-flag with the reference. Sampled, not exhaustive, outside the families.",
            "Trusts refchess (checked against published perft counts at setup). Legal = the property's definition.",
            "DESIGN.md section 4 C01"),
}

NOT_YET = "check not built yet (work in progress; see DESIGN.md section 4)"


def main():
    props = [json.loads(line) for line in open(os.path.join(VERIF, "properties.jsonl"))]
    hooks = []
    try:
        out = subprocess.run(["git", "-C", "/repo", "log", "--format=%H %s"], capture_output=True, text=True).stdout
        for line in out.splitlines():
            h, s = line.split(" ", 1)
            if s.startswith("verif-hook"):
                hooks.append(h)
    except Exception:  # noqa: BLE001
        pass
    checks = []
    na = []
    for p in props:
        pid = p["id"]
        if pid in CHECKS:
            cat, tech, text, note, ref = CHECKS[pid]
            checks.append({
                "property_id": pid,
                "quick_cmd": f"./check {pid} --tier quick",
                "thorough_cmd": f"./check {pid} --tier thorough",
                "evidence_file": f"/verif/evidence/{pid}.json",
                "replay_cmd_template": f"./check {pid} --replay {{path}}",
                "level_claimed": {"category": cat, "text": text, "design_ref": ref},
                "level_note": note,
                "technique": tech,
            })
        else:
            na.append({"property_id": pid, "reason": NOT_YET})
    m = {
        "version": 1,
        "setup_cmd": "./check setup",
        "hooks": {
            "guard": "jgilchrist_tcheran_verif",
            "enable": "RUSTFLAGS=\"--cfg jgilchrist_tcheran_verif\" (set by ./check for every build of /repo sources: the "
                      "harness crate mounting /repo/src by path, and the repository's own binary)",
            "baseline_off_cmd": "cd /repo && cargo test --workspace --no-fail-fast --offline",
            "source_commits": list(reversed(hooks)),
            "add_only": True,
        },
        "engines": [
            {"name": "vharness", "path": "/verif/harness",
             "serves_properties": sorted(CHECKS.keys()),
             "kind_free_text": "Rust binary crate that mounts /repo/src/{chess,engine} by #[path]; hosts the in-process "
                               "runtime monitors, the reference rules model refchess and the workload generators"},
            {"name": "procmon", "path": "/verif/py",
             "serves_properties": [p for p in ("C04", "C05", "C06", "C12", "C13", "C14", "C17") if p in CHECKS],
             "kind_free_text": "Python driver that owns stdin/stdout of the repository's real binary, records the UCI "
                               "history with timestamps and checks it offline"},
        ],
        "checks": checks,
        "not_applicable": na,
        "notes": "Family of technique: runtime monitoring and sanitizers. Verdicts are three-valued; exit 2 = no verdict "
                 "(build failure / observed nothing), never a VIOLATION line. Known findings: /verif/known_findings.txt.",
    }
    with open(os.path.join(VERIF, "MANIFEST.json"), "w") as f:
        json.dump(m, f, indent=1)
        f.write("\n")
    print(f"MANIFEST.json: {len(checks)} checks, {len(na)} not_applicable, hooks={len(hooks)}")


if __name__ == "__main__":
    main()
