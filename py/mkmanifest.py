#!/usr/bin/env python3
"""Regenerates /verif/MANIFEST.json from the table below (run after adding a check)."""
import json
import os
import subprocess

VERIF = os.path.dirname(os.path.dirname(os.path.abspath(__file__)))

# property id -> (level category, technique, level text, level note, design ref)
CHECKS = {
    "C01": ("exploration",
            "differential runtime monitor: engine move list and check verdict vs an independent reference rules model (refchess) on every visited position",
            "Every position of a DFS over ~160 corpus roots, biased random playouts, synthesised legal positions "
            "(incl. extreme material) and five hazard families enumerated completely over their parameter space "
            "(en passant x king x slider, castling x attacker, pin geometry, promotion x checker, double check) is "
            "compared move-for-move and flag-for-flag with the reference. Sampled, not exhaustive, outside the families.",
            "Trusts refchess (checked against published perft counts at setup). Legal = the property's definition.",
            "DESIGN.md section 4 C01"),
    "C02": ("exploration",
            "online trace checker over make/null/undo histories: every observable field vs refchess after each operation, snapshot equality after each take-back, three board views cross-checked",
            "Search-shaped operation histories (nesting up to 40) from corpus, playout and synthesised roots; tens of "
            "millions of operations per run with counters proving that castling both ways, en passant, all promotion "
            "pieces, rook-on-home captures and null moves with a pending target were all exercised.",
            "Trusts refchess. The en-passant target field is judged by 'some single recording convention explains every "
            "observation'.",
            "DESIGN.md section 4 C02"),
    "C03": ("exploration",
            "invariant hook after every operation: carried key == from-scratch key == xor of the 838 components recovered through the public API; run-wide key<->position collision maps; transposition pairs built on purpose; exhaustive component distinctness",
            "Same histories as C02. Components are checked exhaustively (pairwise distinct, non-zero); key/position "
            "injectivity is claimed only for the (millions of) positions in the run-wide map.",
            "Independent 128-bit digest for position identity; map capped (size reported in evidence).",
            "DESIGN.md section 4 C03"),
    "C04": ("exploration",
            "runtime monitoring of the real search under the overflow/assert-instrumented ('checked') and optimised builds: returned move vs refchess legality, every panic attributed to its case; process-level runs of the real debug and release binaries (incl. the deepest recursion the real search thread reaches, and searches at the end of games of 800-2500 plies); the transposition-table model of C19 as a stage, because the search plays table moves unchecked",
            "Chains of searches sharing one PersistentState across positions x depth/movetime/clock/stop limits x hash "
            "sizes {0..64 MB} x histories (games played through, >256 searches on one table, resets/resizes), in both "
            "arithmetic regimes.",
            "Termination is decided only up to logical bounds; a watchdog firing is inconclusive. Deep-recursion stack "
            "use is only observable in the process-level stage.",
            "DESIGN.md section 4 C04"),
    "C05": ("exploration",
            "offline checker over recorded, timestamped UCI dialogues of the real binary under randomised timing and injected delays (hook H3); hangs decided by two load-independent /proc signatures (all threads asleep in futex with frozen CPU; or input thread asleep in futex while the process burns >= 8 s of its own CPU time), never by a bare timeout",
            "Hundreds (thorough: thousands) of conforming command histories per run with inter-command gaps from 0 to 20 ms "
            "and eight delay configurations holding the windows between 'bestmove printed', 'latch set', 'lock taken' open; "
            "interleaving classes observed are counted (stop while searching / after the search ended on its own / before "
            "any go, ucinewgame after a finished search, setoption and isready during search, quit during search) and the internal event orders seen through the H3 trace points.",
            "Liveness restated as bounded progress; alive-but-slow is inconclusive. Schedules are sampled and forced, not "
            "enumerated.",
            "DESIGN.md section 4 C05"),
    "C13": ("exploration",
            "process-level runtime monitor: every advertised spin option (parsed from the binary's own output) at boundaries, neighbours and random interior values, before and between searches, followed by isready and a search judged by refchess",
            "Quantifies over what the binary advertises; Hash 0 and Hash 1024 are always included; an in-process twin drives "
            "the table through all sizes.",
            "SyzygyPath (free text) is outside the property.",
            "DESIGN.md section 4 C13"),
    "C17": ("exploration",
            "differential process-level monitor: 'position ... moves ...' on the real binary vs refchess: FEN dump, reply set (the engine's own long-algebraic output) and bestmove membership",
            "Thousands of legal games from startpos and from FENs, up to ~600 plies, with counters for castling, en passant "
            "and each promotion piece; plus GUI-like sessions (one game as growing/shrinking/repeated prefixes in one process "
            "with ucinewgame, isready and searches in between).",
            "En-passant field accepted under any single recording convention; zero-move games must echo the FEN's own field.",
            "DESIGN.md section 4 C17"),
    "C06": ("exploration",
            "round-trip monitor on live legal positions + grammar-aware/byte-level fuzzing of the reader under catch_unwind in checked and optimised builds, with an independent rank-width oracle",
            "Write->read->compare every field and key on legal positions; canonical text under each en-passant "
            "convention read->write; millions of corrupted FENs (width shifts keeping 64 squares, totals != 64, counter "
            "extremes, missing/extra fields, non-ASCII, random strings) must yield Ok or Err, and Err for any 8-rank "
            "placement with a rank not describing 8 squares.",
            "Inputs are valid UTF-8 (the API takes &str).",
            "DESIGN.md section 4 C06"),
    "C07": ("exploration",
            "exhaustive differential check of every table entry against coordinate-arithmetic geometry, with a bounds assertion hook (H4) natively and Miri in the thorough tier",
            "All 107,648 (square, relevant-blocker-subset) slider cases x 5 occupancies differing only in irrelevant bits, "
            "all leaper/pawn entries, all 64x64 between pairs: the finite space is enumerated completely.",
            "Oracle written with coordinate arithmetic only (no bitboard shifts).",
            "DESIGN.md section 4 C07"),
    "C08": ("exploration",
            "offline checker over recorded search reports (in-process Reporter and the real binary's info lines): every reported line replayed on refchess, depth sequence and mate-distance/line-length/checkmate consistency; at the binary also lines of 30+ plies, searches without a depth limit on collapsing trees, depth limits next to time limits, and a strict grammar for every output line while the GUI side floods the engine with isready during searches",
            "Every SearchInfo of tens of thousands of searches (mates of length 1-7 for and against the root side, used "
            "tables, tiny trees, fifty-move edges) is replayed.",
            "Trusts refchess.",
            "DESIGN.md section 4 C08"),
    "C09": ("fault_enumeration",
            "fault injection at every polling point (hook H1): for each sampled search the stop flag is made to read true from poll k for every k = 1..N, with monitors on legality, positions entered after the stop, input position, and follow-up searches on the same tables",
            "Exhaustive in the stop index k for each sampled (position, depth, prior table state); the triples are sampled.",
            "The polling points are the program's own; time-limit expiry takes the same return path.",
            "DESIGN.md section 4 C09"),
    "C10": ("exploration",
            "differential runtime monitor: MovePicker stream vs refchess legal-move multiset under randomised and adversarially coinciding hash/killer/counter/history contents",
            "Millions of (position, table contents, ply) configurations incl. remembered moves that are not legal here and "
            "forced coincidences (hash = killer, counter = killer, counter = hash); full and captures-only streams.",
            "Hash move is legal or none, as the property states.",
            "DESIGN.md section 4 C10"),
    "C11": ("exploration",
            "online checker along game histories: repetition verdict vs plain scan of recorded position signatures, fifty-move verdict vs clock and legal-move existence; search-level oracle on clock-99 roots and on announced mate lines, and an audit of the table for entries under the keys of positions a search can only have reached as repetitions; exhaustive material sub-space; at the real binary: games in which the lost side can re-create a position of the game record (score must not be below the draw score; also on a second go), and a differential between 'position G' and 'position G+ ; position G'",
            "Histories steered to shuffle (hundreds of thousands of repetitions incl. at the window edge, FEN starts with "
            "non-zero clocks, castling-right loss inside the window); K v K and K+minor v K over all placements.",
            "With null moves only the sound direction is demanded; two-minor cases are left to the engine.",
            "DESIGN.md section 4 C11"),
    "C12": ("exploration",
            "replay monitor: full search transcripts compared between two runs from identical state (second under machine load) and between a fresh state and an arbitrary history followed by reset",
            "Hundreds of chains per run (incl. >255 generations, nearly full small tables, resize then reset); on the real binary a fresh process vs history + ucinewgame, half of them with ucinewgame sent inside the bestmove-to-thread-exit window held open by H3.",
            "Transcript excludes time and nps.",
            "DESIGN.md section 4 C12"),
    "C14": ("exploration",
            "invariant check on the computed limits (hook H2) over a dense grid run completely plus millions of random clock tuples, in checked and optimised builds; CPU-clock-judged timed searches and 'go movetime' with a move overhead configured on the real binary",
            "Grid of ~49k tuples + random tuples down to 1 ms remaining, with/without the other side's time, moves-to-go 1 "
            "and u32::MAX, overhead up to exactly half.",
            "f32 rounding tolerance of one ulp of the remaining time, stated in DESIGN.md.",
            "DESIGN.md section 4 C14"),
    "C15": ("exploration",
            "invariant hook after every operation of the C02 histories: carried accumulators == recomputation, eval along the path == eval of the position read from FEN",
            "Same histories as C02 with the same feature counters.",
            "Evaluation overflow in extreme material is C16's business.",
            "DESIGN.md section 4 C15"),
    "C16": ("exploration",
            "metamorphic runtime monitor (colour mirror), range assertion under the checked build, and blend bracketing using the engine's own pure-phase assessments; exhaustive cube for the blend function",
            "Positions incl. nine queens a side / phase far above 24; every (mg, eg, phase) in a cube enumerated plus grid "
            "and random triples over the 16-bit range.",
            "Pure assessments obtained by forcing the phase to 24 / 0 on a clone.",
            "DESIGN.md section 4 C16"),
    "C18": ("exploration",
            "differential runtime monitor: SAN text vs refchess SAN for every legal move, uniqueness within the position, check suffix vs actual check, parse(format(m)) == m under catch_unwind",
            "Positions dense in like pieces (all four ambiguity classes counted), capturing promotions, checking castles, "
            "pawn captures beside same-file capturers.",
            "Trusts refchess' SAN writer (spot-checked at setup).",
            "DESIGN.md section 4 C18"),
    "C19": ("exploration",
            "history + executable model with uniquely identified values: every probe must be explainable by the set of entries the stated replacement policy admits; fill indicator vs counted slots; all sizes incl. 0",
            "Thousands of operation histories with deliberately colliding keys, >255 generations, resets/resizes; size "
            "sweep over the advertised range; checked and optimised builds (ASan and Miri in the thorough tier).",
            "Search identity = the 8-bit generation the API exposes.",
            "DESIGN.md section 4 C19"),
    "C20": ("exploration",
            "metamorphic (colour mirror) + property oracles (undefended, victim >= attacker) + differential exact swap-list under every tie order",
            "Every legal non-en-passant capture of positions dense around one square, with x-ray attackers counted.",
            "Swap list ignores pins; ambiguous cases are skipped and counted.",
            "DESIGN.md section 4 C20"),
}

NOT_YET = "check not built yet (work in progress; see DESIGN.md section 4)"


def main():
    props = [json.loads(line) for line in open(os.path.join(VERIF, "properties.jsonl"))]
    hooks = []
    try:
        out = subprocess.run(["git", "-C", "/repo", "log", "--format=%H %s"], capture_output=True, text=True).stdout
        for line in out.splitlines():
            h, s = line.split(" ", 1)
            if s.startswith("verif-hook"):
                hooks.append(h)
    except Exception:  # noqa: BLE001
        pass
    checks = []
    na = []
    for p in props:
        pid = p["id"]
        if pid in CHECKS:
            cat, tech, text, note, ref = CHECKS[pid]
            checks.append({
                "property_id": pid,
                "quick_cmd": f"./check {pid} --tier quick",
                "thorough_cmd": f"./check {pid} --tier thorough",
                "evidence_file": f"/verif/evidence/{pid}.json",
                "replay_cmd_template": f"./check {pid} --replay {{path}}",
                "level_claimed": {"category": cat, "text": text, "design_ref": ref},
                "level_note": note,
                "technique": tech,
            })
        else:
            na.append({"property_id": pid, "reason": NOT_YET})
    m = {
        "version": 1,
        "setup_cmd": "./check setup",
        "hooks": {
            "guard": "jgilchrist_tcheran_verif",
            "enable": "RUSTFLAGS=\"--cfg jgilchrist_tcheran_verif\" (set by ./check for every build of /repo sources: the "
                      "harness crate mounting /repo/src by path, and the repository's own binary)",
            "baseline_off_cmd": "cd /repo && cargo test --workspace --no-fail-fast --offline",
            "source_commits": list(reversed(hooks)),
            "add_only": True,
        },
        "engines": [
            {"name": "vharness", "path": "/verif/harness",
             "serves_properties": sorted(CHECKS.keys()),
             "kind_free_text": "Rust binary crate that mounts /repo/src/{chess,engine} by #[path]; hosts the in-process "
                               "runtime monitors, the reference rules model refchess and the workload generators"},
            {"name": "procmon", "path": "/verif/py",
             "serves_properties": [p for p in ("C04", "C05", "C06", "C12", "C13", "C14", "C17") if p in CHECKS],
             "kind_free_text": "Python driver that owns stdin/stdout of the repository's real binary, records the UCI "
                               "history with timestamps and checks it offline"},
        ],
        "checks": checks,
        "not_applicable": na,
        "notes": "Family of technique: runtime monitoring and sanitizers. Verdicts are three-valued; exit 2 = no verdict "
                 "(build failure / observed nothing), never a VIOLATION line. Known findings: /verif/known_findings.txt.",
    }
    with open(os.path.join(VERIF, "MANIFEST.json"), "w") as f:
        json.dump(m, f, indent=1)
        f.write("\n")
    print(f"MANIFEST.json: {len(checks)} checks, {len(na)} not_applicable, hooks={len(hooks)}")


if __name__ == "__main__":
    main()
