"""Core of ./check: builds, stage execution, verdicts, evidence, known findings."""
import json
import os
import subprocess
import sys
import time

VERIF = os.path.dirname(os.path.dirname(os.path.abspath(__file__)))
# The registered commands always check /repo itself. VERIF_REPO exists only so that the monitor self-test can
# point a scratch copy of /verif at a scratch worktree of /repo (selftest/run_seeded.py --sandbox).
REPO = os.environ.get("VERIF_REPO", "/repo")
BUILD = os.path.join(VERIF, ".build")
HARNESS = os.path.join(VERIF, "harness")
HARNESS_TARGET = os.path.join(BUILD, "harness-target")
REPO_TARGET = os.path.join(BUILD, "repo-target")
EVIDENCE = os.path.join(VERIF, "evidence")
REPLAYS = os.path.join(VERIF, "replays")
KNOWN = os.path.join(VERIF, "known_findings.txt")
GUARD = "jgilchrist_tcheran_verif"


def log(msg):
    print(f"[check] {msg}", file=sys.stderr, flush=True)


def base_env():
    env = dict(os.environ)
    env["CARGO_NET_OFFLINE"] = "true"
    env.pop("RUSTFLAGS", None)
    return env


class BuildError(Exception):
    pass


def run_build(cmd, cwd, env, what):
    t0 = time.time()
    p = subprocess.run(cmd, cwd=cwd, env=env, stdout=subprocess.PIPE, stderr=subprocess.STDOUT, text=True)
    if p.returncode != 0:
        tail = "\n".join(p.stdout.splitlines()[-60:])
        raise BuildError(f"build of {what} failed:\n{tail}")
    log(f"built {what} in {time.time() - t0:.1f}s")


def ensure_harness_link():
    link = os.path.join(HARNESS, "repo")
    if not os.path.islink(link) or os.readlink(link) != REPO:
        if os.path.lexists(link):
            os.remove(link)
        os.symlink(REPO, link)


def build_harness(profile):
    """profile: checked | opt | asan | (miri is run, not built, see run_miri)"""
    ensure_harness_link()
    env = base_env()
    if profile == "asan":
        env["RUSTFLAGS"] = f"--cfg {GUARD} -Zsanitizer=address -Cforce-frame-pointers=yes"
        target = os.path.join(BUILD, "harness-asan")
        cmd = ["cargo", "+nightly", "build", "--profile", "opt", "--target", "x86_64-unknown-linux-gnu",
               "--target-dir", target]
        run_build(cmd, HARNESS, env, "harness (asan)")
        return os.path.join(target, "x86_64-unknown-linux-gnu", "opt", "vharness")
    env["RUSTFLAGS"] = f"--cfg {GUARD}"
    cmd = ["cargo", "build", "--profile", profile, "--target-dir", HARNESS_TARGET]
    run_build(cmd, HARNESS, env, f"harness ({profile})")
    return os.path.join(HARNESS_TARGET, profile, "vharness")


def build_repo(kind):
    """kind: release (hooks compiled in, inert until armed) | debug | release-nohooks"""
    env = base_env()
    if kind == "release-nohooks":
        target = os.path.join(BUILD, "repo-target-nohooks")
        cmd = ["cargo", "build", "--release", "--target-dir", target]
        run_build(cmd, REPO, env, "repo binary (release, hooks off)")
        return os.path.join(target, "release", "engine")
    env["RUSTFLAGS"] = f"--cfg {GUARD}"
    cmd = ["cargo", "build", "--target-dir", REPO_TARGET]
    if kind == "release":
        cmd.insert(2, "--release")
    run_build(cmd, REPO, env, f"repo binary ({kind}, hooks on)")
    return os.path.join(REPO_TARGET, "release" if kind == "release" else "debug", "engine")


def run_miri(mode, args, seed, tier, out_path, timeout):
    """Run a harness mode under the Miri interpreter. Returns (report|None, status, stderr tail)."""
    ensure_harness_link()
    env = base_env()
    env["RUSTFLAGS"] = f"--cfg {GUARD}"
    env["MIRIFLAGS"] = "-Zmiri-disable-isolation"
    target = os.path.join(BUILD, "harness-miri")
    cmd = ["cargo", "+nightly", "miri", "run", "--target-dir", target, "--", mode, "--seed", str(seed), "--tier", tier,
           "--out", out_path] + list(args)
    if os.path.exists(out_path):
        os.remove(out_path)
    try:
        p = subprocess.run(cmd, cwd=HARNESS, env=env, stdout=subprocess.PIPE, stderr=subprocess.PIPE, text=True,
                           timeout=timeout)
    except subprocess.TimeoutExpired:
        return None, "timeout", ""
    err = p.stderr
    if "Undefined Behavior" in err or "error: unsupported operation" in err:
        # Miri stops at the first undefined behaviour: that is the observation
        i = err.find("error:")
        return {"miri_error": err[i:i + 3000]}, "miri-ub", err[-3000:]
    if p.returncode != 0 or not os.path.exists(out_path):
        return None, f"crashed(rc={p.returncode})", err[-3000:]
    try:
        return json.load(open(out_path)), "ok", err[-2000:]
    except Exception as e:  # noqa: BLE001
        return None, f"bad-report({e})", err[-2000:]


# ---------------------------------------------------------------------------------------
# known findings

def load_known():
    findings, fixed = [], []
    if os.path.exists(KNOWN):
        for line in open(KNOWN):
            line = line.strip()
            if not line or line.startswith("#"):
                continue
            if line.startswith("finding:"):
                rest = line[len("finding:"):].strip()
                parts = rest.split(None, 2)
                pid = parts[0].split("=", 1)[1]
                sig = parts[1].split("=", 1)[1]
                text = parts[2] if len(parts) > 2 else ""
                findings.append({"property": pid, "signature": sig, "text": text})
            elif line.startswith("fixed:"):
                fixed.append(line)
    return findings, fixed


# ---------------------------------------------------------------------------------------
# running harness stages

def run_harness(binary, mode, args, seed, tier, out_path, timeout, env_extra=None):
    """Returns (report dict or None, status) with status in ok|timeout|crashed."""
    env = base_env()
    env["RUST_BACKTRACE"] = "0"
    if env_extra:
        env.update(env_extra)
    cmd = [binary, mode, "--seed", str(seed), "--tier", tier, "--out", out_path] + list(args)
    if os.path.exists(out_path):
        os.remove(out_path)
    try:
        p = subprocess.run(cmd, cwd=VERIF, env=env, stdout=subprocess.PIPE, stderr=subprocess.PIPE, text=True,
                           timeout=timeout)
    except subprocess.TimeoutExpired:
        return None, "timeout", ""
    err = p.stderr[-4000:]
    if p.returncode != 0 or not os.path.exists(out_path):
        return None, f"crashed(rc={p.returncode})", err
    try:
        return json.load(open(out_path)), "ok", err
    except Exception as e:  # noqa: BLE001
        return None, f"bad-report({e})", err


def write_json(path, obj):
    tmp = path + ".tmp"
    with open(tmp, "w") as f:
        json.dump(obj, f, indent=1, sort_keys=False)
        f.write("\n")
    os.replace(tmp, path)


class Outcome:
    """Accumulates what the stages of one check observed."""

    def __init__(self, pid, tier, seed, level):
        self.pid, self.tier, self.seed, self.level = pid, tier, seed, level
        self.evaluations = 0
        self.groups = {}  # distinct-group -> max distinct
        self.features = {}
        self.samples = []
        self.violations = []  # dicts: signature, what, replay (dict), stage
        self.violations_total = 0
        self.inconclusive = []
        self.inconclusive_total = 0
        self.stage_info = []
        self.rules = []
        self.assumptions = []
        self.errors = []  # internal errors -> exit 2
        self.extra = {}
        self.exhaustive = None

    def add_report(self, stage_name, rep, group=None, replay_prefix=None):
        self.evaluations += rep.get("evaluations", 0)
        g = group or stage_name
        self.groups[g] = max(self.groups.get(g, 0), rep.get("distinct_nontrivial", 0))
        for k, v in rep.get("features", {}).items():
            key = k
            self.features[key] = self.features.get(key, 0) + v
        for s in rep.get("samples", []):
            if len(self.samples) < 16:
                self.samples.append(s)
        if rep.get("rule") and rep["rule"] not in self.rules:
            self.rules.append(rep["rule"])
        self.violations_total += rep.get("violations_total", 0)
        for v in rep.get("violations", []):
            self.violations.append({
                "stage": stage_name,
                "signature": v["signature"],
                "what": v["what"],
                "replay": {"kind": "harness", "prefix": replay_prefix or [], "args": v.get("replay_args", []),
                           "detail": v.get("detail")},
            })
        self.inconclusive_total += rep.get("inconclusive_total", 0)
        for i in rep.get("inconclusive", []):
            if len(self.inconclusive) < 20:
                self.inconclusive.append(i)
        self.stage_info.append({"stage": stage_name, "evaluations": rep.get("evaluations", 0),
                                "distinct_nontrivial": rep.get("distinct_nontrivial", 0),
                                "violations": rep.get("violations_total", 0),
                                "wall_s": round(rep.get("wall_s", 0.0), 2),
                                "notes": rep.get("notes", [])})
        for k in rep:
            if k.startswith("x_"):
                self.extra[k] = rep[k]

    def add_violation(self, stage, signature, what, replay):
        self.violations_total += 1
        self.violations.append({"stage": stage, "signature": signature, "what": what, "replay": replay})

    def add_inconclusive(self, item):
        self.inconclusive_total += 1
        if len(self.inconclusive) < 20:
            self.inconclusive.append(item)


def finish(out: Outcome, t0, required_features=()):
    """Classify, write evidence and replays, print verdict lines, return exit code."""
    os.makedirs(EVIDENCE, exist_ok=True)
    os.makedirs(REPLAYS, exist_ok=True)
    findings, _fixed = load_known()
    known_hits = {}
    new = []
    for v in out.violations:
        hit = None
        for f in findings:
            if f["property"] == out.pid and f["signature"] == v["signature"]:
                hit = f
                break
        if hit:
            known_hits.setdefault(hit["signature"], (hit, 0))
            known_hits[hit["signature"]] = (hit, known_hits[hit["signature"]][1] + 1)
        else:
            new.append(v)
    distinct = sum(out.groups.values())
    missing = [f for f in required_features if out.features.get(f, 0) == 0]
    coverage = {
        "evaluations": out.evaluations,
        "distinct_nontrivial": distinct,
        "rule": " | ".join(out.rules) if out.rules else "see DESIGN.md",
        "samples": out.samples,
        "features": out.features,
        "stages": out.stage_info,
        "inconclusive_total": out.inconclusive_total,
        "inconclusive": out.inconclusive,
        "violations_found": out.violations_total,
        "violation_signatures": sorted({v["signature"] for v in out.violations}),
        "known_findings_matched": sorted(known_hits.keys()),
    }
    if out.exhaustive is not None:
        coverage["exhaustive"] = out.exhaustive
    coverage.update(out.extra)
    ev = {
        "property_id": out.pid,
        "tier": out.tier,
        "seed": out.seed,
        "level": out.level,
        "coverage": coverage,
        "assumptions": out.assumptions,
        "wall_s": round(time.time() - t0, 2),
        "violations": len(new),
    }
    write_json(os.path.join(EVIDENCE, f"{out.pid}.json"), ev)
    for sig, (f, n) in sorted(known_hits.items()):
        print(f"KNOWN-FINDING: property={out.pid} signature={sig} ({n} witnesses this run) {f['text']}")
    rc = 0
    seen = set()
    n = 0
    for v in new:
        if v["signature"] in seen and n >= 5:
            continue
        seen.add(v["signature"])
        n += 1
        path = os.path.join(REPLAYS, f"{out.pid}-{out.seed}-{n}.json")
        write_json(path, {"property": out.pid, "tier": out.tier, "seed": out.seed, "stage": v["stage"],
                          "signature": v["signature"], "what": v["what"], "replay": v["replay"]})
        print(f"VIOLATION property={out.pid} replay={path}")
        print(f"  [{v['stage']}] {v['signature']}: {v['what'][:300]}")
        rc = 1
    if out.errors:
        for e in out.errors:
            print(f"ERROR property={out.pid} {e}")
        if rc == 0:
            rc = 2
    if rc == 0 and (missing or out.evaluations == 0 or distinct < 2):
        print(f"NO-EVIDENCE property={out.pid} observed nothing for: {missing or 'any case'}")
        rc = 2
    if rc == 0:
        print(f"HELD property={out.pid} tier={out.tier} seed={out.seed} evaluations={out.evaluations} "
              f"distinct={distinct} inconclusive={out.inconclusive_total} wall={time.time() - t0:.1f}s")
    return rc


# ---------------------------------------------------------------------------------------

def parse_args(argv):
    opts = {"tier": os.environ.get("VERIF_TIER", "quick"), "seed": int(os.environ.get("VERIF_SEED", "1")),
            "replay": None}
    pos = []
    i = 0
    while i < len(argv):
        a = argv[i]
        if a == "--tier":
            opts["tier"] = argv[i + 1]
            i += 2
        elif a == "--seed":
            opts["seed"] = int(argv[i + 1])
            i += 2
        elif a == "--replay":
            opts["replay"] = argv[i + 1]
            i += 2
        else:
            pos.append(a)
            i += 1
    if opts["tier"] not in ("quick", "thorough"):
        opts["tier"] = "quick"
    return pos, opts


def setup():
    t0 = time.time()
    try:
        checked = build_harness("checked")
        build_harness("opt")
        build_repo("release")
        build_repo("debug")
    except BuildError as e:
        print(str(e))
        return 2
    os.makedirs(os.path.join(BUILD, "tmp"), exist_ok=True)
    rep, status, err = run_harness(checked, "selftest", [], 1, "quick", os.path.join(BUILD, "tmp", "selftest.json"),
                                   600)
    if rep is None or rep.get("violations_total", 1) != 0:
        print(f"reference-model self-test failed: {status}\n{err}\n{json.dumps(rep)[:2000] if rep else ''}")
        return 2
    log(f"setup complete in {time.time() - t0:.1f}s; reference model passed {rep['evaluations']} self-test items")
    return 0


def main(argv):
    pos, opts = parse_args(argv)
    if not pos:
        print(__doc__)
        return 2
    if pos[0] == "setup":
        return setup()
    import props  # noqa: PLC0415
    pid = pos[0].upper()
    if pid not in props.PROPS:
        print(f"unknown property {pid}")
        return 2
    os.makedirs(os.path.join(BUILD, "tmp"), exist_ok=True)
    t0 = time.time()
    try:
        if opts["replay"]:
            return props.replay(pid, opts["replay"], opts)
        return props.PROPS[pid](pid, opts["tier"], opts["seed"], t0)
    except BuildError as e:
        print(f"ERROR property={pid} {e}")
        return 2
