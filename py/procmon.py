"""Process-level monitors on the repository's real binary (C05, C13, C17; parts of C04, C06, C12, C14).

The driver owns stdin/stdout/stderr of each engine process, reads on dedicated threads,
timestamps every line sent and received with one monotonic clock, and hands the recorded
history to offline checkers. Expected values come from `vharness oracle ...` (refchess).
"""
import os
import random
import subprocess
import threading
import time
from concurrent.futures import ThreadPoolExecutor

import vcheck as vc

START_FEN = "rnbqkbnr/pppppppp/8/8/8/8/PPPPPPPP/RNBQKBNR w KQkq - 0 1"


def now():
    return time.monotonic()


class Engine:
    """One engine process with a recorded, timestamped dialogue."""

    def __init__(self, binary, env_extra=None, args=None, pin_cpu=None):
        env = dict(os.environ)
        env.pop("RUST_BACKTRACE", None)
        if env_extra:
            env.update(env_extra)
        self.t0 = now()
        self.proc = subprocess.Popen([binary] + (args or []), stdin=subprocess.PIPE, stdout=subprocess.PIPE,
                                     stderr=subprocess.PIPE, env=env, bufsize=0, cwd=os.path.join(vc.BUILD, "tmp"))
        self.pid = self.proc.pid
        if pin_cpu is not None:
            # schedule diversity: both engine threads share one CPU, so that every preemption point between
            # their critical sections becomes a likely context switch
            try:
                os.sched_setaffinity(self.pid, {pin_cpu})
            except OSError:
                pass
        self.events = []  # (t, kind, text) kind in send|out|err|exit
        self.out_lines = []  # (t, text)
        self.err_lines = []
        self.cv = threading.Condition()
        self.threads = [threading.Thread(target=self._reader, args=(self.proc.stdout, "out"), daemon=True),
                        threading.Thread(target=self._reader, args=(self.proc.stderr, "err"), daemon=True)]
        for t in self.threads:
            t.start()

    def _reader(self, stream, kind):
        buf = b""
        while True:
            try:
                chunk = stream.read(4096)
            except Exception:  # noqa: BLE001
                break
            if not chunk:
                break
            buf += chunk
            while b"\n" in buf:
                line, buf = buf.split(b"\n", 1)
                text = line.decode("utf-8", "replace").rstrip("\r")
                with self.cv:
                    t = now() - self.t0
                    self.events.append((t, kind, text))
                    (self.out_lines if kind == "out" else self.err_lines).append((t, text))
                    self.cv.notify_all()
        with self.cv:
            self.events.append((now() - self.t0, "eof-" + kind, ""))
            self.cv.notify_all()

    def send(self, text):
        with self.cv:
            self.events.append((now() - self.t0, "send", text))
        try:
            self.proc.stdin.write((text + "\n").encode())
            self.proc.stdin.flush()
            return True
        except (BrokenPipeError, OSError):
            with self.cv:
                self.events.append((now() - self.t0, "send-failed", text))
            return False

    def wait_line(self, pred, start_index, timeout):
        """Wait for an stdout line at index >= start_index satisfying pred. Returns (index, text) or None."""
        deadline = now() + timeout
        with self.cv:
            i = start_index
            while True:
                while i < len(self.out_lines):
                    if pred(self.out_lines[i][1]):
                        return i, self.out_lines[i][1]
                    i += 1
                if self.proc.poll() is not None and not any(t.is_alive() for t in self.threads):
                    return None
                left = deadline - now()
                if left <= 0:
                    return None
                self.cv.wait(min(left, 0.25))

    def n_out(self):
        with self.cv:
            return len(self.out_lines)

    def alive(self):
        return self.proc.poll() is None

    def cpu_ns(self):
        """CPU time of the whole process (all threads, including exited ones)."""
        clk = ((~self.pid) << 3) | 2
        try:
            return time.clock_gettime_ns(clk)
        except OSError:
            return None

    def thread_states(self):
        """[(tid, state, syscall_nr, utime+stime)] from /proc."""
        res = []
        base = f"/proc/{self.pid}/task"
        try:
            tids = os.listdir(base)
        except OSError:
            return res
        for tid in tids:
            try:
                stat = open(f"{base}/{tid}/stat").read()
                rp = stat.rfind(")")
                f = stat[rp + 2:].split()
                state = f[0]
                cpu = int(f[11]) + int(f[12])
                try:
                    sc = open(f"{base}/{tid}/syscall").read().split()[0]
                except OSError:
                    sc = "?"
                res.append((tid, state, sc, cpu))
            except (OSError, IndexError, ValueError):
                continue
        return res

    def classify_hang(self):
        """dead: every thread asleep in futex(202), none in read(0), CPU frozen -> can never run again.
        Returns ('deadlock', detail) | ('alive', detail) | ('exited', detail)."""
        if not self.alive():
            return "exited", {"returncode": self.proc.returncode}
        a = self.thread_states()
        time.sleep(0.25)
        b = self.thread_states()
        if not a or not b:
            return "exited", {}
        cpu_a = sum(x[3] for x in a)
        cpu_b = sum(x[3] for x in b)
        all_futex = all(x[1] == "S" and x[2] == "202" for x in b) and all(x[1] == "S" and x[2] == "202" for x in a)
        detail = {"threads": [{"tid": x[0], "state": x[1], "syscall": x[2]} for x in b], "cpu_ticks_delta": cpu_b - cpu_a}
        if all_futex and cpu_a == cpu_b and len(a) == len(b):
            # a third sample a bit later, to be sure
            time.sleep(0.5)
            c = self.thread_states()
            if c and all(x[1] == "S" and x[2] == "202" for x in c) and sum(x[3] for x in c) == cpu_b:
                detail["gdb"] = self.gdb_bt()
                return "deadlock", detail
        return "alive", detail

    def main_thread_in_futex(self):
        try:
            stat = open(f"/proc/{self.pid}/task/{self.pid}/stat").read()
            state = stat[stat.rfind(")") + 2:].split()[0]
            sc = open(f"/proc/{self.pid}/task/{self.pid}/syscall").read().split()[0]
            return state == "S" and sc == "202"
        except (OSError, IndexError):
            return None

    def only_input_thread_reading(self, samples=4, gap=0.3):
        """True iff at every one of `samples` looks the process consists of exactly one thread (tid == pid, the
        command reader) and that thread is asleep in read(2): no search thread exists any more."""
        for i in range(samples):
            if not self.alive():
                return False
            ts = self.thread_states()
            if len(ts) != 1 or ts[0][0] != str(self.pid) or ts[0][1] != "S" or ts[0][2] != "0":
                return False
            if i + 1 < samples:
                time.sleep(gap)
        return True

    def input_thread_blocked(self, cpu_at_send_ns, cpu_budget_s=8.0, wall_cap_s=90.0):
        """Load-independent 'stuck' rule: the process went on to consume `cpu_budget_s` seconds of its OWN
        CPU time after the command was sent (so it was not starved), and at every sample in between its
        input thread (tid == pid) was asleep in futex - i.e. not reading commands and not running.
        Returns (True, detail) if so, (False, why) otherwise."""
        t_end = now() + wall_cap_s
        samples = 0
        while now() < t_end:
            if not self.alive():
                return False, "exited"
            st = self.main_thread_in_futex()
            if st is not True:
                return False, "input thread not blocked"
            samples += 1
            cpu = self.cpu_ns()
            if cpu is not None and cpu_at_send_ns is not None and (cpu - cpu_at_send_ns) / 1e9 >= cpu_budget_s:
                return True, {"cpu_seconds_consumed_since_command": round((cpu - cpu_at_send_ns) / 1e9, 2),
                              "samples_with_input_thread_in_futex": samples, "gdb": self.gdb_bt()}
            time.sleep(0.2)
        return False, "cpu budget not reached within the wall cap (machine starved or process idle)"

    def gdb_bt(self):
        try:
            p = subprocess.run(["gdb", "-p", str(self.pid), "-batch", "-ex", "thread apply all bt 8"],
                               capture_output=True, text=True, timeout=30)
            lines = [line for line in p.stdout.splitlines() if line.startswith("#") or line.startswith("Thread")]
            return lines[:40]
        except Exception as e:  # noqa: BLE001
            return [f"gdb failed: {e}"]

    def close(self, send_quit=True):
        if send_quit and self.alive():
            self.send("quit")
        try:
            self.proc.wait(timeout=3)
        except subprocess.TimeoutExpired:
            self.proc.kill()
            try:
                self.proc.wait(timeout=3)
            except subprocess.TimeoutExpired:
                pass
        for s in (self.proc.stdin, ):
            try:
                s.close()
            except Exception:  # noqa: BLE001
                pass

    def history(self, limit=400):
        with self.cv:
            ev = list(self.events)
        return [[round(t, 6), k, x[:300]] for (t, k, x) in ev[-limit:]]

    def saw_panic(self):
        with self.cv:
            for _, text in self.out_lines + self.err_lines:
                if "panic occurred" in text or "panicked at" in text:
                    return text
        return None


# ---------------------------------------------------------------------------------------
# oracle services

def oracle(harness, what, args, timeout=600):
    p = subprocess.run([harness, "oracle", what] + [str(a) for a in args], capture_output=True, text=True, timeout=timeout)
    if p.returncode != 0:
        raise RuntimeError(f"oracle {what} failed: {p.stderr[-500:]}")
    return p.stdout.splitlines()


def oracle_positions(harness, n, seed):
    res = []
    for line in oracle(harness, "positions", ["--n", n, "--seed", seed]):
        f = line.split("\t")
        if f[0] == "pos":
            res.append({"root": f[1], "moves": f[2], "fen": f[3], "legal": f[4].split()})
    return res


def oracle_heavy(harness, n, seed, min_polls=300, timeout=600):
    """positions whose depth-1 search alone takes >= min_polls x 10 000 nodes (selected by measuring)"""
    res = []
    for line in oracle(harness, "heavy", ["--n", n, "--seed", seed, "--min-polls", min_polls], timeout=timeout):
        f = line.split("\t")
        if f[0] == "pos":
            res.append({"root": f[1], "moves": f[2], "fen": f[3], "legal": f[4].split()})
    return res


# Roots whose first iteration alone is millions of capture-search nodes, selected once by measurement on the tree
# as it was when the checks were built (many mutually attacking queens). They do not depend on what the tree under
# test reports about itself, unlike `oracle_heavy`, which measures with the tree's own poll counter.
STATIC_HEAVY = [
    "6nk/6rb/q1q1q3/1Q1Q1Q1Q/q1q1q1q1/1Q1Q1Q2/BR6/KN6 w - - 0 1",
    "1q5Q/4rnpq/5qQq/K3R1Rb/5QQq/2nrQ2q/2k2B2/5Q2 w - - 0 17",
    "k7/8/1R2r1pq/4QQQ1/3qqQQq/1K2Q1qQ/n4Qq1/8 b - - 0 85",
    "4k3/8/5Qp1/K2bBq1Q/1Q1qqRqq/4q1qr/5QQN/1Q2r3 b - - 0 5",
    "8/4p3/2Kb1QQ1/3B2q1/3qQq1q/3qqQPq/4qQBQ/k7 b - - 0 79",
    "8/Q1QbQqqN/2n3qk/3QqqR1/2n1Q3/2Q1rqQq/8/KQ6 b - - 0 53",
    "6k1/qBQb4/RqB5/qQQr4/qQqQ4/qQ1Q4/6K1/2Q5 w - - 0 89",
    "8/4k3/8/3qq1p1/1K1QQqQQ/4b1qQ/3N1q1r/2nqQrQN w - - 0 6",
]


def static_heavy(harness):
    res = []
    for f in STATIC_HEAVY:
        legal = []
        for line in oracle(harness, "legal", ["--fen", f]):
            if line.startswith("moves "):
                legal = line.split()[1:]
        if legal:
            res.append({"root": f, "moves": "", "fen": f, "legal": legal})
    return res


def oracle_games(harness, n, seed, max_plies, long=0):
    res = []
    for line in oracle(harness, "games", ["--n", n, "--seed", seed, "--max-plies", max_plies, "--long", long]):
        f = line.split("\t")
        if f[0] == "game":
            res.append({"root": f[1], "moves": f[2], "fens": [f[3], f[4], f[5]], "replies": f[6].split(),
                        "features": [x for x in f[7].split(",") if x]})
    return res


def position_cmd(root, moves):
    base = "position startpos" if root in ("startpos", START_FEN) else f"position fen {root}"
    return base + (f" moves {moves}" if moves else "")


# ---------------------------------------------------------------------------------------
# C05 — no command history can hang the engine

DELAY_CONFIGS = [
    {},
    {"go.after_bestmove": 40},
    {"go.after_latch_set": 40},
    {"go.before_lock": 30},
    {"stop.before_wait": 20},
    {"newgame.after_reset": 20},
    {"go.after_search": 25, "go.after_bestmove": 25},
    {"go.before_lock": 15, "go.after_bestmove": 30, "stop.before_wait": 10},
]

# the longest gap exceeds every H3 delay: a command can also arrive just AFTER a held-open window has closed
GAPS = [0.0, 0.0, 0.00005, 0.001, 0.02, 0.07]


def gen_history(rng, positions, length):
    """A conforming command history as a list of steps. Each step: dict(cmd=..., kind=..., wait=...)."""
    steps = []
    cur = {"root": "startpos", "moves": "", "legal": None}
    cur_legal = {"startpos|": None}
    outstanding = False  # a bestmove is outstanding
    infinite = False
    n = 0
    while n < length:
        n += 1
        gap = rng.choice(GAPS)
        if outstanding:
            # only stop and isready may be sent; or wait for the bestmove (finite searches)
            r = rng.random()
            if r < 0.03:
                # input the protocol says to ignore: an empty line, blanks, an unknown word - the engine must carry on
                steps.append({"cmd": rng.choice(["", "   ", "\t", "xyzzy"]), "kind": "noise", "gap": gap})
            elif r < 0.06:
                # 'debug' may be sent at any time, also while the engine is thinking
                steps.append({"cmd": rng.choice(["debug on", "debug off"]), "kind": "debug", "gap": gap})
            elif r < 0.25:
                steps.append({"cmd": "isready", "kind": "isready", "gap": gap})
            elif r < 0.75 or infinite:
                steps.append({"cmd": "stop", "kind": "stop", "gap": gap})
                steps.append({"kind": "await_bestmove"})
                outstanding = False
                infinite = False
            else:
                steps.append({"kind": "await_bestmove"})
                outstanding = False
            continue
        r = rng.random()
        if r < 0.015:
            steps.append({"cmd": rng.choice(["", "   ", "\t", "xyzzy"]), "kind": "noise", "gap": gap})
        elif r < 0.03:
            steps.append({"cmd": rng.choice(["debug on", "debug off"]), "kind": "debug", "gap": gap})
        elif r < 0.05:
            # a GUI may ask for the identification again; the answer ends with uciok
            steps.append({"cmd": "uci", "kind": "uci", "gap": gap})
        elif r < 0.16:
            steps.append({"cmd": "isready", "kind": "isready", "gap": gap})
        elif r < 0.30:
            steps.append({"cmd": "ucinewgame", "kind": "ucinewgame", "gap": gap})
            cur = {"root": "startpos", "moves": ""}
        elif r < 0.42:
            # stop with nothing outstanding: legal at any time
            steps.append({"cmd": "stop", "kind": "stop", "gap": gap})
        elif r < 0.56:
            p = rng.choice(positions)
            cur = {"root": p["root"], "moves": p["moves"]}
            steps.append({"cmd": position_cmd(p["root"], p["moves"]), "kind": "position", "gap": gap, "pos": p})
        elif r < 0.63:
            if rng.random() < 0.7:
                steps.append({"cmd": f"setoption name Hash value {rng.choice([1, 2, 4, 8, 16, 32])}", "kind": "setoption", "gap": gap})
            else:
                steps.append({"cmd": f"setoption name Move Overhead value {rng.choice([0, 10, 100])}", "kind": "setoption", "gap": gap})
        else:
            g = rng.random()
            if g < 0.45:
                cmd, infinite = f"go depth {rng.choice([1, 1, 2, 2, 3, 4])}", False
            elif g < 0.65:
                cmd, infinite = f"go movetime {rng.choice([1, 5, 20, 50])}", False
            elif g < 0.78:
                t = rng.choice([50, 200, 1000])
                cmd, infinite = f"go wtime {t} btime {t} winc 0 binc 0", False
            else:
                cmd, infinite = "go infinite", True
            steps.append({"cmd": cmd, "kind": "go", "gap": gap, "infinite": infinite})
            outstanding = True
            # sometimes react "right after seeing bestmove" for finite searches
            if not infinite and rng.random() < 0.5:
                steps.append({"kind": "await_bestmove"})
                outstanding = False
    if outstanding and rng.random() < 0.5:
        # quit may arrive at any time, also while a (possibly infinite) search is running
        steps.append({"cmd": "quit", "kind": "quit", "gap": rng.choice(GAPS), "during_search": True})
        return steps
    if outstanding:
        if infinite:
            steps.append({"cmd": "stop", "kind": "stop", "gap": 0.0})
        steps.append({"kind": "await_bestmove"})
    steps.append({"cmd": "isready", "kind": "isready", "gap": 0.0})
    steps.append({"cmd": "quit", "kind": "quit", "gap": 0.0})
    return steps


def cmds_of(steps):
    return [s.get("cmd", "<await bestmove>") for s in steps]


def trace_classes(err_lines):
    """Interleaving classes from the engine's own trace points (hook H3, VERIF_UCI_TRACE=1)."""
    pts = []
    for _, x in err_lines:
        if x.startswith("verif-trace "):
            f = x.split()
            if len(f) >= 3:
                pts.append(f[1])
    classes = set()
    searching = False      # between go.before_lock and go.after_latch_set
    printed = False        # between go.after_bestmove and go.after_latch_set
    for p in pts:
        if p == "go.before_lock":
            searching, printed = True, False
        elif p == "go.after_bestmove":
            printed = True
        elif p == "go.after_latch_set":
            searching, printed = False, False
        elif p == "stop.before_wait":
            classes.add("trace_stop_waits_for_live_search" if searching and not printed else
                        "trace_stop_between_bestmove_and_latch_set" if printed else "trace_stop_with_stale_latch")
        elif p == "newgame.after_reset":
            classes.add("trace_newgame_between_bestmove_and_latch_set" if printed else
                        "trace_newgame_while_search_thread_alive" if searching else "trace_newgame_when_idle")
    return classes, tuple(pts)


def run_history(binary, steps, delays, start_legal, ready_timeout=8.0, trace=True, pin_cpu=None):
    """Execute a history; returns dict(verdict=held|violated|inconclusive, signature, what, detail, classes)."""
    env = {}
    if delays:
        env["VERIF_UCI_DELAYS"] = ",".join(f"{k}={v}" for k, v in delays.items())
    if trace:
        env["VERIF_UCI_TRACE"] = "1"
    e = Engine(binary, env, pin_cpu=pin_cpu)
    classes = set()
    if pin_cpu is not None:
        classes.add("engine_pinned_to_one_cpu")
    res = {"verdict": "held", "classes": classes}
    legal_now = start_legal  # legal moves of the position the next go will search
    pending = []  # outstanding go: list of dict(legal=..., out_index=...)
    last_cpu = {}
    bm_seen = 0  # number of bestmove lines consumed so far
    quit_during_search = False
    ready_seen = 0
    uciok_seen = [0]

    def count_lines(prefix):
        with e.cv:
            return [i for i, (_, x) in enumerate(e.out_lines) if x.startswith(prefix)]

    def fail(sig, what, extra=None):
        res.update({"verdict": "violated", "signature": sig, "what": what,
                    "detail": {"history": e.history(), "delays": delays, **(extra or {})}})

    def unanswered(what_waited, sig, cpu_at_send=None):
        kind, detail = e.classify_hang()
        if kind == "alive" and cpu_at_send is not None:
            blocked, info = e.input_thread_blocked(cpu_at_send)
            if blocked:
                fail(sig.replace(".deadlock", ".input-thread-blocked"),
                     f"{what_waited}: the engine consumed {info['cpu_seconds_consumed_since_command']} s of CPU time "
                     f"after the command while its input thread stayed asleep in futex (never back to reading commands)",
                     {"proc": info})
                return True
        if kind == "deadlock":
            fail(sig, f"{what_waited}: every thread of the engine sleeps in futex and CPU time is frozen "
                      f"(deadlock)", {"proc": detail})
            return True
        if kind == "exited":
            p = e.saw_panic()
            if p:
                fail("c05.engine-crashed", f"{what_waited}: the engine crashed: {p[:200]}", {"proc": detail})
            else:
                fail("c05.engine-exited", f"{what_waited}: the engine exited (rc={detail.get('returncode')}) "
                                          f"before answering", {"proc": detail})
            return True
        return False

    def lost_go(idx):
        """A go that can never be answered, decided without a clock: the engine answers isready AFTER the go (so the
        go was consumed, commands being handled in order), no bestmove line has arrived for it, and the process
        consists of its command reader alone, asleep in read(2) - there is no search thread left to print one."""
        n0 = len(count_lines("readyok"))
        if not e.send("isready"):
            return False
        t_end = now() + 20
        while now() < t_end and len(count_lines("readyok")) <= n0 and e.alive():
            time.sleep(0.05)
        if len(count_lines("readyok")) <= n0 or not e.only_input_thread_reading():
            return False
        time.sleep(1.0)  # let our own pipe reader catch up with anything the vanished thread printed
        if len(count_lines("bestmove")) != len(idx) or not e.only_input_thread_reading(2):
            return False
        fail("c05.go-never-answered",
             "a go was consumed (a later isready was answered) but no bestmove was printed and no search thread exists "
             "any more: the process is its command reader alone, asleep in read(2)", {"proc": e.thread_states()})
        return True

    try:
        for step_no, st in enumerate(steps):
            if res["verdict"] != "held":
                break
            kind = st["kind"]
            if kind == "await_bestmove":
                idx = count_lines("bestmove")
                if len(idx) > bm_seen:
                    bm_seen += 1
                    classes.add("bestmove_already_there_when_awaited")
                    continue
                got = e.wait_line(lambda x: x.startswith("bestmove"), idx[-1] + 1 if idx else 0, 10.0)
                if got is None:
                    if unanswered("no bestmove after go (and stop, if the search was infinite)", "c05.no-bestmove.deadlock",
                                  last_cpu.get("stop") if last_cpu.get("stop_pending") else None):
                        break
                    if lost_go(idx):
                        break
                    got = e.wait_line(lambda x: x.startswith("bestmove"), 0 if not idx else idx[-1] + 1, 50.0)
                    if got is None:
                        res.update({"verdict": "inconclusive", "what": "bestmove not seen within 60 s but the engine is alive",
                                    "detail": {"history": e.history()}})
                        break
                bm_seen += 1
                continue
            if st.get("gap"):
                time.sleep(st["gap"])
            n_ready_before = len(count_lines("readyok"))
            cpu_at_send = e.cpu_ns()
            if kind == "stop":
                last_cpu["stop"] = cpu_at_send
                last_cpu["stop_pending"] = len(count_lines("bestmove")) < len(pending)
            if not e.send(st["cmd"]):
                p = e.saw_panic()
                fail("c05.engine-crashed" if p else "c05.engine-exited",
                     f"engine gone when sending '{st['cmd']}': {p or 'stdin closed'}")
                break
            if kind == "isready":
                with e.cv:
                    start = 0
                got = None
                deadline_idx = n_ready_before
                # wait until the number of readyok lines exceeds what we had
                t_end = now() + ready_timeout
                while now() < t_end:
                    if len(count_lines("readyok")) > deadline_idx:
                        got = True
                        break
                    if not e.alive():
                        break
                    with e.cv:
                        e.cv.wait(0.05)
                if not got:
                    if unanswered(f"isready not answered after {cmds_of(steps)[:step_no + 1][-6:]}", "c05.isready.deadlock", cpu_at_send):
                        break
                    t_end = now() + 52
                    while now() < t_end and len(count_lines("readyok")) <= deadline_idx and e.alive():
                        time.sleep(0.1)
                    if len(count_lines("readyok")) <= deadline_idx:
                        res.update({"verdict": "inconclusive", "what": "readyok not seen within 60 s but the engine is alive",
                                    "detail": {"history": e.history()}})
                        break
                if pending:
                    classes.add("isready_during_search")
            elif kind == "noise":
                classes.add("ignorable_input_during_search" if len(count_lines("bestmove")) < len(pending) else "ignorable_input_when_idle")
            elif kind == "debug":
                classes.add("debug_during_search" if len(count_lines("bestmove")) < len(pending) else "debug_when_idle")
            elif kind == "uci":
                n_ok = len(count_lines("uciok"))
                t_end = now() + ready_timeout
                while now() < t_end and len(count_lines("uciok")) <= n_ok - 0 and e.alive():
                    if len(count_lines("uciok")) > uciok_seen[0]:
                        break
                    time.sleep(0.02)
                if len(count_lines("uciok")) <= uciok_seen[0]:
                    if unanswered("uci not answered by uciok", "c05.uci.deadlock", cpu_at_send):
                        break
                    res.update({"verdict": "inconclusive", "what": "uciok not seen but the engine is alive", "detail": {"history": e.history()}})
                    break
                uciok_seen[0] = len(count_lines("uciok"))
                classes.add("uci_again_mid_session")
                legal_now = start_legal  # this engine's 'uci' handler also sets the start position up again
            elif kind == "position":
                legal_now = st["pos"]["legal"]
            elif kind == "ucinewgame":
                legal_now = start_legal
                if len(count_lines("bestmove")) > 0:
                    classes.add("ucinewgame_after_finished_search")
            elif kind == "setoption":
                if pending:
                    classes.add("setoption_during_search")
            elif kind == "go":
                pending.append({"legal": legal_now, "cmd": st["cmd"]})
                classes.add("go_infinite" if st.get("infinite") else "go_finite")
            elif kind == "stop":
                if len(count_lines("bestmove")) < len(pending):
                    classes.add("stop_while_searching")
                elif pending:
                    classes.add("stop_after_search_finished_on_its_own")
                else:
                    classes.add("stop_before_any_go")
            elif kind == "quit":
                if st.get("during_search"):
                    classes.add("quit_during_search")
                    quit_during_search = True
                try:
                    e.proc.wait(timeout=5)
                except subprocess.TimeoutExpired:
                    if unanswered(f"quit does not end the process (after {cmds_of(steps)[:step_no + 1][-5:]})", "c05.quit.deadlock", cpu_at_send):
                        break
                    try:
                        e.proc.wait(timeout=55)
                    except subprocess.TimeoutExpired:
                        res.update({"verdict": "inconclusive", "what": "process alive 60 s after quit", "detail": {"history": e.history()}})
                        break
        # offline checks over the recorded history
        if res["verdict"] == "held":
            time.sleep(0.02)
            with e.cv:
                outs = [x for _, x in e.out_lines]
            bms = [x for x in outs if x.startswith("bestmove")]
            if len(bms) > len(pending):
                fail("c05.extra-bestmove", f"{len(bms)} bestmove lines for {len(pending)} go commands")
            elif len(bms) < len(pending) - (1 if quit_during_search else 0):
                # only a quit sent while the last search was still running may leave that one go unanswered
                fail("c05.missing-bestmove", f"{len(bms)} bestmove lines for {len(pending)} go commands")
            else:
                for bm, pg in zip(bms, pending):  # zip stops at the shorter list
                    mv = bm.split()[1] if len(bm.split()) > 1 else "?"
                    if pg["legal"] is not None and mv not in pg["legal"]:
                        fail("c05.illegal-bestmove", f"'{bm}' answers '{pg['cmd']}' but is not legal there")
                        break
            p = e.saw_panic()
            if res["verdict"] == "held" and p:
                fail("c05.engine-crashed", f"panic output seen: {p[:200]}")
    finally:
        res["n_commands"] = len(steps)
        with e.cv:
            errs = list(e.err_lines)
        tc, order = trace_classes(errs)
        classes.update(tc)
        res["trace_order"] = order
        e.close(send_quit=False)
        if e.alive():
            e.proc.kill()
    return res


def c05_stage(out, tier, seed):
    thorough = tier == "thorough"
    harness = vc.build_harness("checked")
    bins = [("release", vc.build_repo("release"))]
    if thorough:
        bins.append(("debug", vc.build_repo("debug")))
    positions = oracle_positions(harness, 60, seed)
    # positions in which the side to move has exactly one legal move, or a mate in one: searches that are over at once
    for f in ["6k1/5ppp/8/8/8/8/5PBP/r5K1 w - - 0 1", "7k/8/8/8/8/8/4q3/7K w - - 3 9", "6k1/5ppp/8/8/8/8/8/R6K w - - 0 1",
              "r1bqkbnr/pppp1ppp/2n5/4p2Q/2B1P3/8/PPPP1PPP/RNB1K1NR w KQkq - 4 4", "8/8/8/8/8/5k2/7r/6K1 w - - 0 1"]:
        lines = oracle(harness, "legal", ["--fen", f])
        legal = [x for x in lines if x.startswith("moves ")][0].split()[1:]
        if "legalpos true" not in lines or not legal:
            raise RuntimeError(f"hand-written C05 position is not a legal non-terminal position: {f}")
        positions.extend([{"root": f, "moves": "", "fen": f, "legal": legal}] * 3)
    start_legal = sorted(["a2a3", "a2a4", "b2b3", "b2b4", "c2c3", "c2c4", "d2d3", "d2d4", "e2e3", "e2e4", "f2f3", "f2f4",
                          "g2g3", "g2g4", "h2h3", "h2h4", "b1a3", "b1c3", "g1f3", "g1h3"])
    n_hist = 6000 if thorough else 360
    rng = random.Random(seed * 7919 + 5)
    jobs = []
    # the history named in the property, and close relatives, always run
    fixed = [
        ["go depth 2", None, "ucinewgame", "stop", "isready"],
        ["go depth 1", None, "stop", "isready", "go depth 1", None, "ucinewgame", "isready", "stop", "isready"],
        ["go infinite", "stop", None, "ucinewgame", "stop", "isready"],
        ["ucinewgame", "stop", "isready"],
        ["go depth 2", None, "go infinite", "stop", None, "isready"],
        ["go infinite", "stop", None, "isready", "go infinite", "isready", "stop", None],
        # a second search started inside the first one's bestmove-to-exit window, questions once that window has closed
        ["go depth 1", None, "go infinite", ("isready", 0.09), "stop", None, "isready"],
        ["go depth 1", None, "go infinite", ("isready", 0.0), ("isready", 0.09), "stop", None, "isready"],
        # an empty line between commands, idle and while searching
        ["", "isready", "go infinite", "", "isready", "stop", None, "", "isready"],
        # a search that is over at once (a single legal move), on the clock, then 'stop' - after the move and before it
        ["position fen 6k1/5ppp/8/8/8/8/5PBP/r5K1 w - - 0 1", "go wtime 1000 btime 1000", None, "stop", "isready", "go wtime 1000 btime 1000", "stop", None, "isready"],
        ["position fen 7k/8/8/8/8/8/4q3/7K w - - 3 9", "go movetime 100", "stop", None, "stop", "isready", "go depth 3", None, "stop", "isready"],
    ]
    quit_hist = [["go infinite", "quit"], ["go depth 1", None, "go infinite", "isready", "quit"]]
    for f in fixed:
        steps = []
        for c in f:
            if c is None:
                steps.append({"kind": "await_bestmove"})
            else:
                c, gap = c if isinstance(c, tuple) else (c, 0.0)
                k = (c.split() or ["noise"])[0]
                steps.append({"cmd": c, "kind": "go" if k == "go" else k, "gap": gap, "infinite": c == "go infinite"})
                if k == "position":
                    steps[-1]["pos"] = {"legal": None}
        steps.append({"cmd": "isready", "kind": "isready", "gap": 0.0})
        steps.append({"cmd": "quit", "kind": "quit", "gap": 0.0})
        for d in DELAY_CONFIGS[:3] + [DELAY_CONFIGS[6]]:
            jobs.append((bins[0], steps, d))
    for f in quit_hist:
        steps = []
        for c in f:
            if c is None:
                steps.append({"kind": "await_bestmove"})
            else:
                k = c.split()[0]
                steps.append({"cmd": c, "kind": "go" if k == "go" else k, "gap": 0.0, "infinite": c == "go infinite",
                              "during_search": k == "quit"})
        jobs.append((bins[0], steps, {}))
    n_fixed = len(jobs)
    for i in range(n_hist):
        steps = gen_history(rng, positions, rng.choice([6, 10, 16, 24, 30]))
        d = DELAY_CONFIGS[(i // 2) % len(DELAY_CONFIGS)] if (i % 2 == 0) else {}
        jobs.append((bins[i % len(bins)], steps, d))
    # rapid go-infinite/stop cycles (the stop always finds a live search), half of them with the engine
    # pinned to one CPU
    for j in range(24 if not thorough else 200):
        steps = []
        for _ in range(12):
            steps.append({"cmd": "go infinite", "kind": "go", "gap": 0.0, "infinite": True})
            steps.append({"cmd": "stop", "kind": "stop", "gap": rng.choice([0.0005, 0.002, 0.005])})
            steps.append({"kind": "await_bestmove"})
            steps.append({"cmd": "isready", "kind": "isready", "gap": 0.0})
        steps.append({"cmd": "quit", "kind": "quit", "gap": 0.0})
        jobs.append((bins[j % len(bins)], steps, {}))

    lock = threading.Lock()
    stats = {"histories": 0, "commands": 0, "classes": {}, "delay_configs": {}}
    distinct = set()
    orders = set()

    def work(job):
        (bname, binary), steps, delays = job
        if out.violations_total >= 6:
            return None  # enough witnesses: do not spend minutes on the slow paths of a broken tree
        idx = job_index[id(steps)]
        pin = (idx % 16) if idx % 3 == 0 else None
        r = run_history(binary, steps, delays, start_legal, pin_cpu=pin)
        with lock:
            stats["histories"] += 1
            stats["commands"] += len(steps)
            for c in r["classes"]:
                stats["classes"][c] = stats["classes"].get(c, 0) + 1
            dk = ",".join(sorted(delays)) or "none"
            stats["delay_configs"][dk] = stats["delay_configs"].get(dk, 0) + 1
            distinct.add(hash((tuple(cmds_of(steps)), dk, bname)))
            orders.add(r.get("trace_order", ()))
            if r["verdict"] == "violated":
                out.add_violation(f"uci-{bname}", r["signature"], r["what"],
                                  {"kind": "py", "check": "c05", "binary": bname, "delays": delays,
                                   "steps": steps, "detail": r.get("detail")})
            elif r["verdict"] == "inconclusive":
                out.add_inconclusive({"stage": f"uci-{bname}", "what": r["what"], "commands": cmds_of(steps)})
        return r

    job_index = {id(j[1]): i for i, j in enumerate(jobs)}
    with ThreadPoolExecutor(max_workers=12) as ex:
        list(ex.map(work, jobs))
    out.evaluations += stats["histories"]
    out.groups["c05-histories"] = len(distinct)
    for c, n in stats["classes"].items():
        out.features["class_" + c] = out.features.get("class_" + c, 0) + n
    for c, n in stats["delay_configs"].items():
        out.features["delays_" + c] = n
    out.features["commands_sent"] = stats["commands"]
    out.extra["x_distinct_internal_event_orders_observed"] = len(orders)
    out.samples.append({"history": cmds_of(jobs[n_fixed + 1][1]), "delays": jobs[n_fixed + 1][2]})
    out.samples.append({"history": cmds_of(jobs[0][1]), "delays": jobs[0][2]})
    out.rules.append("conforming UCI command histories (isready/stop any time; go/ucinewgame/position/setoption only while "
                     "no bestmove is outstanding) with randomised inter-command gaps and H3 delay configurations, on the "
                     "real binary; each isready must be answered, each go by exactly one legal bestmove, quit must end the "
                     "process; a missing answer is a violation only with a clock-free signature from /proc (all threads in futex with "
                     "CPU frozen; input thread asleep in futex while the process burns its own CPU; or, for a go, a later isready "
                     "answered while no search thread exists and no bestmove was printed); distinct = distinct "
                     "(command list, delay configuration, binary)")
    out.stage_info.append({"stage": "uci-histories", "evaluations": stats["histories"], "commands": stats["commands"]})


# ---------------------------------------------------------------------------------------
# replay of process-level cases

def replay(pid, rec, path):
    r = rec["replay"]
    if r.get("check") == "c05":
        binary = vc.build_repo(r["binary"])
        vc.build_harness("checked")
        start_legal = None
        worst = None
        for attempt in range(4):
            res = run_history(binary, r["steps"], r["delays"], start_legal, pin_cpu=(attempt if attempt % 2 else None))
            if res["verdict"] == "violated":
                print(f"REPRODUCED property={pid} {res['signature']}: {res['what'][:300]}")
                print(f"VIOLATION property={pid} replay={path}")
                return 1
            worst = res
        print(f"replay ran clean 3 times ({worst['verdict']}): the recorded history no longer violates {pid}")
        return 0
    import procmon2  # noqa: PLC0415
    return procmon2.replay(pid, rec, path)
