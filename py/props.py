"""Per-property check definitions (stages per tier)."""
import json
import os

import vcheck as vc
from vcheck import Outcome, finish, build_harness, run_harness, log

TMP = os.path.join(vc.BUILD, "tmp")


def H(name, mode, profile="checked", args=(), group=None, timeout=3600, tiers=("quick", "thorough"), env=None):
    return {"kind": "harness", "name": name, "mode": mode, "profile": profile, "args": list(args),
            "group": group or mode, "timeout": timeout, "tiers": tiers, "env": env}


def run_stages(pid, tier, seed, t0, level, stages, required=(), assumptions=(), exhaustive=None):
    out = Outcome(pid, tier, seed, level)
    out.assumptions = list(assumptions)
    out.exhaustive = exhaustive
    bins = {}
    for st in stages:
        if tier not in st["tiers"]:
            continue
        if st["kind"] == "harness":
            prof = st["profile"]
            if prof not in bins:
                bins[prof] = build_harness(prof)
            outp = os.path.join(TMP, f"{pid}-{st['name']}-{tier}-{seed}.json")
            rep, status, err = run_harness(bins[prof], st["mode"], st["args"], seed, tier, outp, st["timeout"],
                                           st.get("env"))
            if rep is None:
                if status == "timeout":
                    out.add_inconclusive({"stage": st["name"], "why": "stage watchdog fired"})
                    out.errors.append(f"stage {st['name']} exceeded its watchdog ({st['timeout']}s): inconclusive")
                else:
                    out.errors.append(f"stage {st['name']} {status}: {err[-1500:]}")
                continue
            out.add_report(st["name"], rep, st["group"], replay_prefix=[prof])
        elif st["kind"] == "py":
            st["fn"](out, tier, seed)
    return finish(out, t0, required)


def replay(pid, path, opts):
    """Re-run exactly the recorded case."""
    rec = json.load(open(path))
    r = rec["replay"]
    if r["kind"] == "harness":
        prof = r["prefix"][0] if r.get("prefix") else "checked"
        binary = build_harness(prof)
        args = r["args"]
        outp = os.path.join(TMP, f"{pid}-replay.json")
        rep, status, err = run_harness(binary, args[0], args[1:], rec.get("seed", 1), "quick", outp, 1800)
        if rep is None:
            print(f"replay did not complete: {status}\n{err}")
            return 2
        if rep.get("violations_total", 0) > 0:
            for v in rep["violations"]:
                print(f"REPRODUCED property={pid} {v['signature']}: {v['what'][:400]}")
            print(f"VIOLATION property={pid} replay={path}")
            return 1
        print(f"replay ran clean: the recorded case no longer violates {pid}")
        return 0
    if r["kind"] == "py":
        import procmon  # noqa: PLC0415
        return procmon.replay(pid, rec, path)
    print("unknown replay kind")
    return 2


# ---------------------------------------------------------------------------------------

def c01(pid, tier, seed, t0):
    stages = [
        H("movegen-checked", "c01", "checked"),
    ]
    return run_stages(pid, tier, seed, t0, "exploration", stages,
                      required=("ep_capture_legal", "ep_pseudo_but_illegal", "double_check", "castling_legal",
                                "pinned_piece", "promotion_while_in_check", "family_ep_x_slider",
                                "family_castle_x_attacker", "family_pin_geometry"),
                      assumptions=["oracle = refchess (independent mailbox rules implementation), itself checked "
                                   "against published perft counts in setup",
                                   "positions are legal per the property's definition; reachability from the "
                                   "start position is not required"])


WALK_FEATURES = ("castle_kingside", "castle_queenside", "castle_white", "castle_black", "en_passant_capture",
                 "promotion_Q", "promotion_R", "promotion_B", "promotion_N", "promotion_N_capture",
                 "rook_captured_on_home_square", "null_move", "undo_null", "undo_move", "nesting_ge_20",
                 "null_move_with_ep_target_pending")
WALK_ASSUME = ["oracle = refchess advanced by the same moves (rules), pre-move snapshots (reversibility)",
               "histories are sampled; nesting depth <= 40, as deep as a search of the default depth limits goes"]


def c02(pid, tier, seed, t0):
    stages = [H("walk-checked", "c02", "checked", args=["--scale", "3"])]
    return run_stages(pid, tier, seed, t0, "exploration", stages,
                      required=WALK_FEATURES + ("double_push_with_neighbour", "double_push_without_neighbour",
                                                "double_push_neighbour_cannot_capture"),
                      assumptions=WALK_ASSUME + ["en-passant target field: any single recording convention (always / "
                                                 "enemy pawn adjacent / capture legal) is accepted if it explains "
                                                 "every observation of the run"])


def c03(pid, tier, seed, t0):
    stages = [H("walk-checked", "c03", "checked", args=["--scale", "3"])]
    return run_stages(pid, tier, seed, t0, "exploration", stages, required=WALK_FEATURES,
                      assumptions=WALK_ASSUME + ["'different keys on everything explored' is claimed for the positions "
                                                 "in the run-wide map only (capped, see x_positions_in_collision_map)"])


def c15(pid, tier, seed, t0):
    stages = [H("walk-checked", "c15", "checked", args=["--scale", "3"])]
    return run_stages(pid, tier, seed, t0, "exploration", stages, required=WALK_FEATURES, assumptions=WALK_ASSUME)


PROPS = {
    "C01": c01,
    "C02": c02,
    "C03": c03,
    "C15": c15,
}
