"""Per-property check definitions (stages per tier)."""
import json
import os

import vcheck as vc
from vcheck import Outcome, finish, build_harness, run_harness, log

TMP = os.path.join(vc.BUILD, "tmp")


def H(name, mode, profile="checked", args=(), group=None, timeout=3600, tiers=("quick", "thorough"), env=None):
    return {"kind": "harness", "name": name, "mode": mode, "profile": profile,
            "args": args if isinstance(args, dict) else list(args),
            "group": group or mode, "timeout": timeout, "tiers": tiers, "env": env}


def _pm2(name):
    def f(out, tier, seed):
        import procmon2  # noqa: PLC0415
        return getattr(procmon2, name)(out, tier, seed)
    return f


def P(name, fn, tiers=("quick", "thorough")):
    return {"kind": "py", "name": name, "fn": fn, "tiers": tiers}


def M(name, mode, shards, group=None, timeout=5400, tiers=("thorough",)):
    """Miri stage: `shards` is a list of argument lists, run as parallel interpreter processes."""
    return {"kind": "miri", "name": name, "mode": mode, "shards": shards, "group": group or ("miri-" + mode),
            "timeout": timeout, "tiers": tiers}


def asan_signature(err):
    """First in-repository frame of an AddressSanitizer report."""
    import re  # noqa: PLC0415
    kind = re.search(r"ERROR: AddressSanitizer: (\S+)", err)
    frame = re.search(r"#\d+ 0x[0-9a-f]+ in (\S*(?:engine|chess)::\S+)", err)
    return f"asan.{kind.group(1) if kind else 'report'}@{frame.group(1)[:80] if frame else '?'}"


def run_stages(pid, tier, seed, t0, level, stages, required=(), assumptions=(), exhaustive=None):
    out = Outcome(pid, tier, seed, level)
    out.assumptions = list(assumptions)
    out.exhaustive = exhaustive
    bins = {}
    for st in stages:
        if tier not in st["tiers"]:
            continue
        if st["kind"] == "harness":
            prof = st["profile"]
            if prof not in bins:
                bins[prof] = build_harness(prof)
            outp = os.path.join(TMP, f"{pid}-{st['name']}-{tier}-{seed}.json")
            sargs = st["args"][tier] if isinstance(st["args"], dict) else st["args"]
            env = dict(st.get("env") or {})
            if prof == "asan":
                env["ASAN_OPTIONS"] = "halt_on_error=1:abort_on_error=0:detect_leaks=0"
            rep, status, err = run_harness(bins[prof], st["mode"], sargs, seed, tier, outp, st["timeout"], env)
            if rep is None and prof == "asan" and "AddressSanitizer" in err:
                # halt_on_error: the report is the observation, attributed to this stage's workload
                out.add_violation(st["name"], f"{pid.lower()}.{asan_signature(err)}",
                                  "AddressSanitizer report:\n" + err[err.find("ERROR: AddressSanitizer"):][:1500],
                                  {"kind": "harness", "prefix": ["asan"], "args": [st["mode"]] + st["args"], "detail": None})
                continue
            if rep is None and status.startswith("crashed"):
                # The harness itself contains no unsafe code: a failed unsafe-precondition check (debug
                # assertions instrument get_unchecked & co.) or a glibc heap-consistency abort during a
                # monitored workload is an observation about the code under test, not a harness error.
                markers = [("unsafe precondition(s) violated", "ub-check"), ("free(): invalid", "heap-corruption"),
                           ("malloc(): ", "heap-corruption"), ("double free or corruption", "heap-corruption"),
                           ("corrupted size vs. prev_size", "heap-corruption"), ("munmap_chunk(): invalid", "heap-corruption"),
                           ("malloc_consolidate(): ", "heap-corruption")]
                hit = next(((m, k) for (m, k) in markers if m in err), None)
                if hit:
                    line = next((x for x in err.splitlines() if hit[0] in x), hit[0])
                    out.add_violation(st["name"], f"{pid.lower()}.{hit[1]}",
                                      f"stage {st['name']} ({st['mode']} {' '.join(sargs)}, seed {seed}) aborted: {line[:300]}",
                                      {"kind": "harness", "prefix": [prof], "args": [st["mode"]] + list(sargs), "detail": err[-1500:]})
                    continue
            if rep is None:
                if status == "timeout":
                    out.add_inconclusive({"stage": st["name"], "why": "stage watchdog fired"})
                    out.errors.append(f"stage {st['name']} exceeded its watchdog ({st['timeout']}s): inconclusive")
                else:
                    out.errors.append(f"stage {st['name']} {status}: {err[-1500:]}")
                continue
            out.add_report(st["name"], rep, st["group"], replay_prefix=[prof])
        elif st["kind"] == "py":
            st["fn"](out, tier, seed)
        elif st["kind"] == "miri":
            from concurrent.futures import ThreadPoolExecutor  # noqa: PLC0415

            def one(i_args):
                i, a = i_args
                outp = os.path.join(TMP, f"{pid}-{st['name']}-{i}-{tier}-{seed}.json")
                return a, vc.run_miri(st["mode"], a, seed, tier, outp, st["timeout"])
            with ThreadPoolExecutor(max_workers=16) as ex:
                results = list(ex.map(one, enumerate(st["shards"])))
            for a, (rep, status, err) in results:
                if status == "miri-ub":
                    out.add_violation(st["name"], f"{pid.lower()}.miri.undefined-behaviour",
                                      "Miri: " + rep["miri_error"][:1500],
                                      {"kind": "miri", "mode": st["mode"], "args": a})
                elif rep is None:
                    if status == "timeout":
                        out.add_inconclusive({"stage": st["name"], "why": "Miri stage watchdog fired", "args": a})
                    else:
                        out.errors.append(f"miri stage {st['name']} {a} {status}: {err[-800:]}")
                else:
                    out.add_report(st["name"], rep, st["group"], replay_prefix=["miri"])
            out.features["miri_processes"] = out.features.get("miri_processes", 0) + len(st["shards"])
    return finish(out, t0, required)


def replay(pid, path, opts):
    """Re-run exactly the recorded case."""
    rec = json.load(open(path))
    r = rec["replay"]
    if r["kind"] == "harness":
        prof = r["prefix"][0] if r.get("prefix") else "checked"
        binary = build_harness(prof)
        args = r["args"]
        outp = os.path.join(TMP, f"{pid}-replay.json")
        rep, status, err = run_harness(binary, args[0], args[1:], rec.get("seed", 1), "quick", outp, 1800)
        if rep is None:
            print(f"replay did not complete: {status}\n{err}")
            return 2
        if rep.get("violations_total", 0) > 0:
            for v in rep["violations"]:
                print(f"REPRODUCED property={pid} {v['signature']}: {v['what'][:400]}")
            print(f"VIOLATION property={pid} replay={path}")
            return 1
        print(f"replay ran clean: the recorded case no longer violates {pid}")
        return 0
    if r["kind"] == "py":
        import procmon  # noqa: PLC0415
        return procmon.replay(pid, rec, path)
    print("unknown replay kind")
    return 2


# ---------------------------------------------------------------------------------------

def c01(pid, tier, seed, t0):
    stages = [
        H("movegen-checked", "c01", "checked"),
        # the shipped build has no debug assertions and no overflow checks: same workload, optimised profile
        H("movegen-opt", "c01", "opt", group="c01-opt"),
        H("movegen-asan", "c01", "asan", group="c01-asan", tiers=("thorough",), args=["--tier-override", "quick"]),
        M("movegen-miri", "miri-c01", [["--root-lo", str(i), "--root-hi", str(i + 4)] for i in range(0, 10, 5)]),
    ]
    return run_stages(pid, tier, seed, t0, "exploration", stages,
                      required=("ep_capture_legal", "ep_pseudo_but_illegal", "double_check", "castling_legal",
                                "pinned_piece", "promotion_while_in_check", "family_ep_x_slider",
                                "family_castle_x_attacker", "family_pin_geometry"),
                      assumptions=["oracle = refchess (independent mailbox rules implementation), itself checked "
                                   "against published perft counts in setup",
                                   "positions are legal per the property's definition; reachability from the "
                                   "start position is not required"])


WALK_FEATURES = ("castle_kingside", "castle_queenside", "castle_white", "castle_black", "en_passant_capture",
                 "promotion_Q", "promotion_R", "promotion_B", "promotion_N", "promotion_N_capture",
                 "rook_captured_on_home_square", "null_move", "undo_null", "undo_move", "nesting_ge_20",
                 "null_move_with_ep_target_pending", "root_with_clock_ge_255", "root_with_large_move_number",
                 "nesting_ge_300_then_unwound")
WALK_ASSUME = ["oracle = refchess advanced by the same moves (rules), pre-move snapshots (reversibility)",
               "histories are sampled; nesting depth <= 40 in most walks, one walk in 24 dives 300..700 plies deep and takes "
               "everything back"]


def c02(pid, tier, seed, t0):
    stages = [H("walk-checked", "c02", "checked", args={"quick": ["--scale", "3"], "thorough": ["--scale", "1"]}),
              H("walk-opt", "c02", "opt", group="c02-opt", args={"quick": ["--scale", "1"], "thorough": ["--scale", "1"]}),
              M("walk-miri", "miri-c02", [["--root-lo", str(i), "--root-hi", str(i + 4)] for i in range(0, 10, 5)])]
    return run_stages(pid, tier, seed, t0, "exploration", stages,
                      required=WALK_FEATURES + ("double_push_with_neighbour", "double_push_without_neighbour",
                                                "double_push_neighbour_cannot_capture"),
                      assumptions=WALK_ASSUME + ["en-passant target field: any single recording convention (always / "
                                                 "enemy pawn adjacent / capture legal) is accepted if it explains "
                                                 "every observation of the run"])


def c03(pid, tier, seed, t0):
    stages = [H("walk-checked", "c03", "checked", args={"quick": ["--scale", "3"], "thorough": ["--scale", "1"]}),
              H("walk-opt", "c03", "opt", group="c03-opt", args={"quick": ["--scale", "1"], "thorough": ["--scale", "1"]})]
    return run_stages(pid, tier, seed, t0, "exploration", stages, required=WALK_FEATURES + ("transposition_pairs_compared", "reader_accepted_texts_with_unfitting_fields"),
                      assumptions=WALK_ASSUME + ["'different keys on everything explored' is claimed for the positions "
                                                 "in the run-wide map only (capped, see x_positions_in_collision_map)"])


def c15(pid, tier, seed, t0):
    stages = [H("walk-checked", "c15", "checked", args={"quick": ["--scale", "3"], "thorough": ["--scale", "1"]}),
              H("walk-opt", "c15", "opt", group="c15-opt", args={"quick": ["--scale", "1"], "thorough": ["--scale", "1"]})]
    return run_stages(pid, tier, seed, t0, "exploration", stages, required=WALK_FEATURES, assumptions=WALK_ASSUME)


def c06(pid, tier, seed, t0):
    stages = [
        H("fen-checked", "c06", "checked"),
        # the optimised build has no overflow checks and no debug assertions: the same hostile
        # text must still yield a position or an error
        H("fen-hostile-opt", "c06", "opt", args=["--hostile-only"], group="c06-opt"),
        P("fen-binary", _pm2("c06_stage")),
    ]
    return run_stages(pid, tier, seed, t0, "exploration", stages,
                      required=("legal_positions_round_tripped", "canonical_text_with_ep_history",
                                "mut_width_shift_total_64", "mut_total_not_64", "mut_counters", "mut_missing_fields",
                                "mut_extra_fields", "mut_non_ascii", "mut_random_string", "bad_rank_width_rejected"),
                      assumptions=["inputs are valid UTF-8 (from_fen takes &str)",
                                   "leniencies of the reader other than rank widths (missing counters, repeated "
                                   "castling letters) are not demanded away"])


def c07(pid, tier, seed, t0):
    stages = [H("tables-checked", "c07", "checked"),
              H("tables-opt", "c07", "opt", group="c07-opt"),
              M("tables-miri", "c07", [["--single-thread", "--variants", "3", "--sq-lo", str(i), "--sq-hi", str(i + 3)] for i in range(0, 64, 4)])]
    rc = run_stages(pid, tier, seed, t0, "exploration", stages,
                    required=("rook_subsets", "bishop_subsets", "between_pairs", "leaper_entries"),
                    assumptions=["oracle = coordinate-arithmetic ray walk written for this check",
                                 "index bounds: hook H4 asserts the index natively; the thorough tier repeats the "
                                 "enumeration under Miri, which checks the access itself"],
                    exhaustive=True)
    return rc


def c10(pid, tier, seed, t0):
    stages = [H("picker-checked", "c10", "checked", args={"quick": ["--scale", "8"], "thorough": ["--scale", "2"]}),
              H("picker-opt", "c10", "opt", group="c10-opt", args={"quick": ["--scale", "3"], "thorough": ["--scale", "1"]})]
    return run_stages(pid, tier, seed, t0, "exploration", stages,
                      required=("full_streams", "loud_streams", "coincidence_hash_eq_killer",
                                "coincidence_counter_eq_killer", "coincidence_counter_eq_hash",
                                "remembered_not_legal_here", "remembered_legal_capture", "position_in_check",
                                "position_with_ep_capture", "position_with_previous_move"),
                      assumptions=["hash move is a legal move or none, as the property states",
                                   "oracle = refchess legal moves with rule-derived flags"])


def c11(pid, tier, seed, t0):
    stages = [H("draws-checked", "c11", "checked", args={"quick": ["--scale", "2"], "thorough": ["--scale", "4"]}),
              H("draws-opt", "c11", "opt", group="c11-opt", args={"quick": ["--scale", "1"], "thorough": ["--scale", "2"]}),
              H("draws-in-search", "c11s", "checked", group="c11s", args={"quick": [], "thorough": ["--cases", "400000"]}),
              P("repetition-binary", _pm2("c11_stage"))]
    return run_stages(pid, tier, seed, t0, "exploration", stages,
                      required=("binary_repetition_first_of_tail_fen_clock_0", "binary_repetition_first_of_tail_after_capture",
                                "binary_repetition_first_of_tail_after_pawn_move", "binary_repetition_later_in_tail",
                                "binary_repetition_second_go_on_one_position_command", "tail_positions_audited", "binary_position_overwrite_comparisons",
                                "repetitions_observed", "repetition_of_oldest_position_in_window",
                                "clock_ge_100_observed", "terminal_at_clock_ge_100", "fen_start_with_nonzero_clock",
                                "null_moves_in_history", "bare_kings", "king_and_minor",
                                "three_men_with_pawn_rook_or_queen", "synth_more_than_two_minors",
                                "castling_right_lost_inside_history", "clock_99_all_moves_quiet_roots",
                                "clock_99_mate_on_the_100th_halfmove", "clock_99_root_with_a_non_mating_check",
                                "mate_lines_checked_against_the_clock"),
                      assumptions=["position identity = (placement, side, rights, en-passant target field) as read from "
                                   "the engine's observable state, which C02 judges against the rules",
                                   "with null moves in the history only 'engine says repeated => an identical earlier "
                                   "position exists' is demanded"])


def c16(pid, tier, seed, t0):
    stages = [H("eval-checked", "c16", "checked", args={"quick": ["--scale", "8"], "thorough": ["--scale", "8"]}),
              H("eval-opt", "c16", "opt", group="c16-opt", args={"quick": ["--scale", "4"], "thorough": ["--scale", "4"]}),
              M("eval-miri", "miri-c16", [["--root-lo", "0", "--root-hi", "4"], ["--root-lo", "5", "--root-hi", "9"]])]
    return run_stages(pid, tier, seed, t0, "exploration", stages,
                      required=("phase_above_24", "six_or_more_queens", "blend_cube_triples"),
                      assumptions=["pure middlegame / endgame assessments are the engine's own evaluation with the "
                                   "phase forced to 24 / 0", "non-mate range = |score| < 31900"])


def c18(pid, tier, seed, t0):
    stages = [H("san-checked", "c18", "checked", args={"quick": ["--scale", "2"], "thorough": ["--scale", "1"]}),
              H("san-opt", "c18", "opt", group="c18-opt", args={"quick": ["--scale", "1"], "thorough": ["--scale", "1"]})]
    return run_stages(pid, tier, seed, t0, "exploration", stages,
                      required=("ambiguity_neither_file_nor_rank_shared", "ambiguity_file_shared",
                                "ambiguity_rank_shared", "ambiguity_both_shared", "capturing_promotions",
                                "castling_giving_check", "pawn_capture_with_other_capturer_on_same_file",
                                "moves_giving_check"),
                      assumptions=["oracle = refchess SAN writer (FIDE Appendix C); '+' on a mating move is accepted"])


def c19(pid, tier, seed, t0):
    stages = [H("tt-checked", "c19", "checked"),
              H("tt-opt", "c19", "opt", group="c19-opt", args=["--no-size-sweep"]),
              H("tt-large-checked", "c19", "checked", group="c19-large", tiers=("thorough",),
                args=["--sizes", "128,256,512", "--histories", "96", "--max-ops", "4000", "--no-size-sweep", "--threads", "4"]),
              H("tt-asan", "c19", "asan", group="c19-asan", tiers=("thorough",), args=["--histories", "8000", "--max-ops", "8000", "--no-size-sweep"]),
              M("tt-miri", "c19", [["--threads", "1", "--histories", "6", "--max-ops", "700", "--sizes", "0,1", "--no-size-sweep", "--seed-add", str(i)] for i in range(14)], timeout=2400)]
    return run_stages(pid, tier, seed, t0, "exploration", stages,
                      required=("insert_must_not_displace_exact", "insert_over_older_search", "insert_policy_free",
                                "slot_collision_different_keys", "probe_hits", "probe_misses", "reset", "resize",
                                "occupancy_checks", "ops_on_zero_slot_table", "generation_wrapped_past_255",
                                "probes_after_reset_or_resize", "size_sweep_tables", "fill_histories"),
                      assumptions=["search identity = the 8-bit generation the API exposes; ages 256 searches apart "
                                   "alias by construction and are treated as one search by the model",
                                   "a resize to the current size is a documented no-op and is never issued"])


def c20(pid, tier, seed, t0):
    stages = [H("see-checked", "c20", "checked", args={"quick": ["--scale", "10"], "thorough": ["--scale", "8"]}),
              H("see-opt", "c20", "opt", group="c20-opt", args={"quick": ["--scale", "5"], "thorough": ["--scale", "4"]})]
    return run_stages(pid, tier, seed, t0, "exploration", stages,
                      required=("target_undefended", "victim_ge_attacker", "swaplist_order_irrelevant",
                                "swaplist_with_xray_attacker", "capturing_promotions"),
                      assumptions=["exact swap list ignores pins (as any swap list does); exchanges where a pawn would "
                                   "recapture onto a back rank, where tie order matters, or where a king capture hinges "
                                   "on an x-ray through the king itself are counted as skipped"])


SEARCH_FEATURES = ("chain_crossing_256_searches", "chain_game_played_through", "hash_0mb", "hash_1mb", "hash_64mb",
                   "limit_clock", "limit_movetime", "limit_depth_255_with_stop", "pos_mate_or_tiny_tree_root",
                   "pos_near_fifty_move_boundary", "pos_playout_with_history", "pos_synth",
                   "reset_between_searches", "resize_between_searches")


def c04(pid, tier, seed, t0):
    stages = [
        H("search-checked", "c04", "checked", group="c04"),
        H("search-opt", "c04", "opt", group="c04-opt"),
        H("search-asan", "c04", "asan", group="c04-asan", tiers=("thorough",), args=["--cases", "6000", "--depth-budget", "6"]),
        M("search-miri", "miri-c04", [["--root-lo", str(i), "--root-hi", str(i + 1), "--depth", "3"] for i in range(0, 10, 2)]),
        P("binary-sessions", _pm2("c04_stage")),
        # the search plays the table's move without a legality test, at the root too: its safety rests on a probe never
        # answering for another position, so the table model (C19's monitor) runs here as well
        H("tt-model-checked", "c19", "checked", args=["--histories", "96", "--max-ops", "600", "--no-size-sweep"], group="c04-tt"),
    ]
    return run_stages(pid, tier, seed, t0, "exploration", stages,
                      required=SEARCH_FEATURES + ("searches", "binary_release_recursion_100_plies_plus", "binary_debug_recursion_66_plies_plus",
                                                  "binary_searches_after_games_of_800_plies_or_more"),
                      assumptions=["termination: every search has a logical bound (depth, time, or a stop request "
                                   "at a given poll via hook H1); a stage watchdog firing is inconclusive",
                                   "harness threads have large stacks; exhaustion of the real 2 MiB search-thread "
                                   "stack is observable only in the process-level stage",
                                   "legality oracle = refchess"])


def c08(pid, tier, seed, t0):
    stages = [H("lines-checked", "c08", "checked"), P("lines-binary", _pm2("c08_stage"))]
    return run_stages(pid, tier, seed, t0, "exploration", stages,
                      required=SEARCH_FEATURES + ("info_lines", "mate_for_root_side", "mate_against_root_side",
                                                  "mate_distance_3", "mate_distance_5", "searches_on_used_tables",
                                                  "binary_info_lines", "binary_mate_announcements",
                                                  "binary_searches_reporting_lines_of_32_plies_or_more",
                                                  "binary_searches_running_out_of_depths", "binary_info_lines_during_isready_flood"),
                      assumptions=["oracle = refchess replay of every reported line"])


def c09(pid, tier, seed, t0):
    stages = [H("stops-checked", "c09", "checked", args={"quick": [], "thorough": ["--triples", "9000"]})]
    return run_stages(pid, tier, seed, t0, "fault_enumeration", stages,
                      required=("triples_enumerated", "stop_points_enumerated", "followup_searches",
                                "fallback_to_first_picked_move", "pos_quiescence_heavy", "expired_limit_searches",
                                "completed_iterations_at_abort_1", "completed_iterations_at_abort_5",
                                "prior_state_from_another_position", "prior_state_warm_same_position",
                                "followup_searches_on_abort_path", "heavy_root_with_game_record_and_warm_base"),
                      assumptions=["exhaustive in k for each sampled (position, depth, prior state); the triples are "
                                   "sampled", "the polling points are the program's own: hook H1 only makes the flag "
                                   "read true from poll k on",
                                   "expiry of a time limit takes the same return path at the same polls"])


def c12(pid, tier, seed, t0):
    stages = [H("determinism-checked", "c12", "checked"), P("ucinewgame-binary", _pm2("c12_stage"))]
    return run_stages(pid, tier, seed, t0, "exploration", stages,
                      required=("binary_ucinewgame_right_after_bestmove_with_delay", "binary_ucinewgame_then_go_without_position", "binary_fresh_engine_without_any_preamble", "lockstep_searches_compared", "searches_begun_seconds_after_their_stopwatch", "binary_ucinewgame_after_bench_in_session", "reset_then_compare_with_fresh", "second_run_under_load",
                                "long_chain_ge_255_generations", "hash_1mb", "hash_64mb"),
                      assumptions=["transcript = best move + depth, seldepth, score, nodes, hashfull, line of every "
                                   "iteration; time and nps excluded"])


def c14(pid, tier, seed, t0):
    stages = [H("limits-checked", "c14", "checked"),
              H("limits-opt", "c14", "opt", group="c14-opt"),
              P("timed-release", _pm2("c14_stage"))]
    return run_stages(pid, tier, seed, t0, "exploration", stages,
                      required=("timed_searches", "timed_searches_at_200ms", "timed_searches_quiescence_heavy", "timed_searches_after_option_in_bestmove_window", "timed_searches_whose_thread_started_after_the_clock_ran_out", "timed_searches_with_only_the_movers_clock", "timed_searches_right_after_a_long_search", "timed_searches_with_a_depth_cap_next_to_the_clock", "timed_long_sessions_past_256_searches", "movetime_with_overhead_cases", "grid_tuples", "random_tuples", "remaining_below_200ms",
                                "only_one_sides_time_supplied", "moves_to_go_1", "moves_to_go_u32_max",
                                "overhead_exactly_half", "fixed_movetime_cases"),
                      assumptions=["limits read through hook H2", "bound checked with a tolerance of one f32 ulp of the "
                                   "remaining time + 1 us (the code computes through Duration::mul_f32)"])


def c05(pid, tier, seed, t0):
    import procmon  # noqa: PLC0415
    stages = [P("uci-histories", procmon.c05_stage)]
    return run_stages(pid, tier, seed, t0, "exploration", stages,
                      required=("class_stop_while_searching", "class_stop_after_search_finished_on_its_own",
                                "class_stop_before_any_go", "class_ucinewgame_after_finished_search",
                                "class_isready_during_search", "class_go_infinite", "class_go_finite", "class_quit_during_search",
                                "class_engine_pinned_to_one_cpu",
                                "delays_go.after_bestmove", "delays_stop.before_wait", "delays_go.before_lock",
                                "class_trace_stop_waits_for_live_search", "class_trace_stop_with_stale_latch",
                                "class_trace_stop_between_bestmove_and_latch_set",
                                "class_trace_newgame_between_bestmove_and_latch_set"),
                      assumptions=["'eventually' restated as bounded progress: an unanswered command is a violation only "
                                   "with the /proc deadlock signature (every thread asleep in futex, none in read, CPU "
                                   "frozen), or with the blocked-input-thread signature (the process consumed >= 8 s of its "
                                   "own CPU time after the command while its input thread slept in futex throughout); "
                                   "anything else is inconclusive",
                                   "schedules are sampled and forced with H3 delays at preemptible points, not enumerated",
                                   "depth <= 4 and < 250 searches per process keep other properties' defects from "
                                   "masquerading as hangs"])


def c13(pid, tier, seed, t0):
    import procmon2  # noqa: PLC0415
    stages = [P("options", procmon2.c13_stage),
              # in-process twin: every table size through the API (incl. 0) with inserts, probes and a reset
              H("tt-sizes-checked", "c19", "checked", args=["--histories", "64", "--max-ops", "400"], group="c13-tt")]
    return run_stages(pid, tier, seed, t0, "exploration", stages,
                      required=("option_Hash_values", "option_Threads_values", "option_Move_Overhead_values", "hash_0",
                                "hash_1024", "values_set_before_first_search", "values_set_between_searches",
                                "sessions_setting_options_right_after_bestmove", "values_set_after_the_position_command",
                                "values_followed_by_ucinewgame", "values_sent_a_second_time", "values_written_zero_padded_or_signed"),
                      assumptions=["the quantifier is what the binary itself advertises in its 'option' lines",
                                   "the free-text SyzygyPath option is outside the property"])


def c17(pid, tier, seed, t0):
    import procmon2  # noqa: PLC0415
    stages = [P("position-command", procmon2.c17_stage)]
    return run_stages(pid, tier, seed, t0, "exploration", stages,
                      required=("games_with_castle", "games_with_ep", "games_with_promo_q", "games_with_promo_r",
                                "games_with_promo_b", "games_with_promo_n", "games_from_fen", "games_from_startpos",
                                "games_with_session_step", "games_with_session_step_after_ucinewgame",
                                "sessions_with_command_right_after_bestmove_delay", "games_with_long_game",
                                "games_with_command_between_position_and_dump", "games_from_a_four_field_fen"),
                      assumptions=["games and expectations come from refchess; the en-passant field of the FEN dump is "
                                   "accepted under any single recording convention"])


PROPS = {
    "C13": c13,
    "C17": c17,
    "C05": c05,
    "C04": c04,
    "C08": c08,
    "C09": c09,
    "C12": c12,
    "C14": c14,
    "C06": c06,
    "C07": c07,
    "C10": c10,
    "C11": c11,
    "C16": c16,
    "C18": c18,
    "C19": c19,
    "C20": c20,
    "C01": c01,
    "C02": c02,
    "C03": c03,
    "C15": c15,
}
