"""Per-property check definitions (stages per tier)."""
import json
import os

import vcheck as vc
from vcheck import Outcome, finish, build_harness, run_harness, log

TMP = os.path.join(vc.BUILD, "tmp")


def H(name, mode, profile="checked", args=(), group=None, timeout=3600, tiers=("quick", "thorough"), env=None):
    return {"kind": "harness", "name": name, "mode": mode, "profile": profile, "args": list(args),
            "group": group or mode, "timeout": timeout, "tiers": tiers, "env": env}


def run_stages(pid, tier, seed, t0, level, stages, required=(), assumptions=(), exhaustive=None):
    out = Outcome(pid, tier, seed, level)
    out.assumptions = list(assumptions)
    out.exhaustive = exhaustive
    bins = {}
    for st in stages:
        if tier not in st["tiers"]:
            continue
        if st["kind"] == "harness":
            prof = st["profile"]
            if prof not in bins:
                bins[prof] = build_harness(prof)
            outp = os.path.join(TMP, f"{pid}-{st['name']}-{tier}-{seed}.json")
            rep, status, err = run_harness(bins[prof], st["mode"], st["args"], seed, tier, outp, st["timeout"],
                                           st.get("env"))
            if rep is None:
                if status == "timeout":
                    out.add_inconclusive({"stage": st["name"], "why": "stage watchdog fired"})
                    out.errors.append(f"stage {st['name']} exceeded its watchdog ({st['timeout']}s): inconclusive")
                else:
                    out.errors.append(f"stage {st['name']} {status}: {err[-1500:]}")
                continue
            out.add_report(st["name"], rep, st["group"], replay_prefix=[prof])
        elif st["kind"] == "py":
            st["fn"](out, tier, seed)
    return finish(out, t0, required)


def replay(pid, path, opts):
    """Re-run exactly the recorded case."""
    rec = json.load(open(path))
    r = rec["replay"]
    if r["kind"] == "harness":
        prof = r["prefix"][0] if r.get("prefix") else "checked"
        binary = build_harness(prof)
        args = r["args"]
        outp = os.path.join(TMP, f"{pid}-replay.json")
        rep, status, err = run_harness(binary, args[0], args[1:], rec.get("seed", 1), "quick", outp, 1800)
        if rep is None:
            print(f"replay did not complete: {status}\n{err}")
            return 2
        if rep.get("violations_total", 0) > 0:
            for v in rep["violations"]:
                print(f"REPRODUCED property={pid} {v['signature']}: {v['what'][:400]}")
            print(f"VIOLATION property={pid} replay={path}")
            return 1
        print(f"replay ran clean: the recorded case no longer violates {pid}")
        return 0
    if r["kind"] == "py":
        import procmon  # noqa: PLC0415
        return procmon.replay(pid, rec, path)
    print("unknown replay kind")
    return 2


# ---------------------------------------------------------------------------------------

def c01(pid, tier, seed, t0):
    stages = [
        H("movegen-checked", "c01", "checked"),
    ]
    return run_stages(pid, tier, seed, t0, "exploration", stages,
                      required=("ep_capture_legal", "ep_pseudo_but_illegal", "double_check", "castling_legal",
                                "pinned_piece", "promotion_while_in_check", "family_ep_x_slider",
                                "family_castle_x_attacker", "family_pin_geometry"),
                      assumptions=["oracle = refchess (independent mailbox rules implementation), itself checked "
                                   "against published perft counts in setup",
                                   "positions are legal per the property's definition; reachability from the "
                                   "start position is not required"])


PROPS = {
    "C01": c01,
}
